#!/opt/veriftools/pyvenv/bin/python
"""Validates MANIFEST.json and every evidence file against the given schemas (development tool)."""
import glob, json, sys
import jsonschema
ok = True
m = json.load(open('/verif/MANIFEST.json'))
jsonschema.validate(m, json.load(open('/root/.vp/MANIFEST.schema.json')))
es = json.load(open('/root/.vp/EVIDENCE.schema.json'))
claimed = {c['property_id'] for c in m['checks']}
for f in sorted(glob.glob('/verif/evidence/*.json')):
    try:
        jsonschema.validate(json.load(open(f)), es)
    except Exception as e:
        ok = False
        print('INVALID', f, str(e)[:300])
have = {f.split('/')[-1][:-5] for f in glob.glob('/verif/evidence/*.json')}
print('claimed', len(claimed), 'evidence', len(have), 'missing', sorted(claimed - have))
ids = [json.loads(l)['id'] for l in open('/verif/properties.jsonl')]
na = {e['property_id'] for e in m.get('not_applicable', [])}
assert set(ids) == claimed | na, (set(ids) - claimed - na)
print('OK' if ok else 'FAILED')
sys.exit(0 if ok else 1)
