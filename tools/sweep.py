#!/venv/bin/python
"""Runs every check at several VERIF_SEED values and reports non-zero exits (development tool).
usage: sweep.py [--tier quick] [--seeds 1,2,3] [--props C01,C02] [--par 3]"""
import argparse, concurrent.futures as cf, json, os, subprocess, sys, time
HERE = os.path.dirname(os.path.dirname(os.path.abspath(__file__)))
ap = argparse.ArgumentParser()
ap.add_argument("--tier", default="quick"); ap.add_argument("--seeds", default="1,2,3,4,5")
ap.add_argument("--props", default=None); ap.add_argument("--par", type=int, default=3); ap.add_argument("--jobs", type=int, default=6)
a = ap.parse_args()
props = a.props.split(",") if a.props else [json.loads(l)["id"] for l in open(os.path.join(HERE, "properties.jsonl"))]
def one(p, s):
    t = time.time()
    r = subprocess.run([os.path.join(HERE, "check"), p, "--tier", a.tier, "--no-evidence", "--jobs", str(a.jobs)],
                       env=dict(os.environ, VERIF_SEED=str(s)), capture_output=True, text=True)
    return p, s, r.returncode, time.time() - t, [l for l in r.stdout.splitlines() if l.startswith(("VIOLATION", "  [", "HARNESS"))][:4], r.stderr[-500:] if r.returncode == 2 else ""
bad = 0
with cf.ThreadPoolExecutor(a.par) as ex:
    futs = [ex.submit(one, p, int(s)) for s in a.seeds.split(",") for p in props]
    for f in cf.as_completed(futs):
        p, s, rc, dt, lines, err = f.result()
        if rc != 0:
            bad += 1
            print("NONZERO %s seed=%d exit=%d %.0fs" % (p, s, rc, dt)); [print("   ", l[:300]) for l in lines]; print(err)
        else:
            print("ok %s seed=%d %.0fs" % (p, s, dt))
        sys.stdout.flush()
print("runs with non-zero exit:", bad)
sys.exit(1 if bad else 0)
