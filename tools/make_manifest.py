#!/venv/bin/python
"""Regenerates /verif/MANIFEST.json from the table below (kept in one place so it stays valid)."""
import json
import os

HERE = os.path.dirname(os.path.dirname(os.path.abspath(__file__)))

# id -> (technique, level text, level note, design section)
CHECKS = {
    "C01": (
        "Hypothesis-generated GMMs and samples vs a SciPy reference density; single/batch/Dask differential; numeric integral of the density",
        "Generated-input search: thousands of (model, sample) cases with mixed feature scales, floors and tail samples are compared with an independent SciPy mixture log-density, the single-vector / batch / row-chunked Dask paths are compared with each other, and exp(log_likelihood) is integrated numerically. Held = no disagreement on everything generated.",
        "Trusts scipy.stats.norm.logpdf and scipy.special.logsumexp as the reference; dimensions bounded (C<=8, F<=6).",
        "DESIGN.md section 4, C01",
    ),
    "C02": (
        "Hypothesis-generated data/splits vs reference responsibility-weighted moments; split-and-add metamorphic relation incl. exhaustive enumeration of all 2^(n-1) compositions for small n",
        "Generated-input search: statistics of generated data equal independently computed weighted moments (NumPy and Dask input); any permutation+composition of the rows into blocks, added with + or +=, equals the whole; every composition is enumerated for n<=7 (quick) / n<=10 (thorough); operands are never mutated; incompatible shapes are refused without side effect.",
        "Trusts the SciPy-based posterior reference; re-association tolerance 1e-10 relative.",
        "DESIGN.md section 4, C02",
    ),
    "C03": (
        "Hypothesis-generated trainings vs a reference EM trajectory: one-step M-step differential, monotonicity of an independently computed likelihood, predicted stop iteration",
        "Generated-input search over data, initial models, all 8 update-switch combinations, floors, thresholds and caps (NumPy and Dask): one iteration equals the reference M-step; the SciPy-computed mean log-likelihood never decreases at floor-free steps; fit(threshold, cap) returns the model of exactly the predicted iteration on the reference trajectory.",
        "Strictly positive floors; floor-active steps exempt from monotonicity; cases within 1e-6 of the threshold discarded and counted; iteration count is observed through the returned model (undecidable when neighbouring iterates coincide, counted as non-decisive).",
        "DESIGN.md section 4, C03",
    ),
    "C05": (
        "Hypothesis-generated priors/data/relevance vs reference Reynolds eqs. 11-13; limit and monotone-objective metamorphic checks; reference trajectory differential",
        "Generated-input search: first MAP iteration equals the reference blend (incl. exactly-zero-evidence components and fixed ratios), weights renormalised, prior bit-for-bit untouched; r=1e12 returns the prior and r=1e-12 the ML estimate; means-only adaptation never decreases the relevance-penalised likelihood; K iterations follow the reference trajectory. Known finding KF-1 (variance blend) is recognised only by its exact wrong value.",
        "KF-1 open: multi-iteration runs with update_variances are excluded by construction and counted; the variance limit r->0 is compared with ML only when means are updated too (the statement's explicit formula is authoritative otherwise).",
        "DESIGN.md section 4, C05",
    ),
    "C06": (
        "Hypothesis-generated k-means trainings vs a reference Lloyd step written with explicit differences; independent distortion monotone; predicted stop iteration",
        "Generated-input search (explicit, seeded 'random' and 'k-means||' initialisation; NumPy and Dask; slow-converging 1-D sets so that caps up to 12 matter): each centroid equals the mean of the rows nearest to its predecessor, the independently computed distortion never rises while no cluster is empty, the reported criterion equals the mean squared distance for the centroids entering the last iteration (also via transform), and fit(threshold, cap) stops at the predicted iteration.",
        "'k-means++' excluded (third-party signature breakage in this environment); near-ties discarded and counted; empty-cluster steps exempt from descent.",
        "DESIGN.md section 4, C06",
    ),
    "C07": (
        "Hypothesis-generated UBM/U/V/D/sessions; differential against reference block coordinate ascent; monotone joint log-posterior; fixed point vs dense-solve joint mode",
        "Generated-input search with D of order 1 (every coupling alive), fractional and zero counts, 1-5 sessions: enroll(K) equals K rounds of conditional-mode updates written from the model; the joint log-posterior of the reconstructed state never decreases in K and never exceeds its value at the exact mode; when the iterates stop moving (K up to 2048) they equal the mode from one dense solve.",
        "Convergence is checked through fixed points (not 'eventually'); runs that have not converged within 2048 iterations are counted inconclusive.",
        "DESIGN.md section 4, C07",
    ),
    "C08": (
        "Hypothesis-generated UBMs/models/statistics/offsets vs a triple-loop reference; algebraic (metamorphic) laws; finite-difference derivative identity",
        "Generated-input search over every accepted input form (machines, 2-D/3-D arrays, lists; single or list statistics incl. zero-frame and sum(n)!=t; scalar / (C,F) / (T,C,F) offsets; prior or MAP machine as UBM): equals the reference; zero for the UBM; homogeneous and additive in the model offset; additive over statistics; and equals the Richardson-extrapolated derivative of the UBM log-likelihood along the model direction.",
        "Finite-difference tolerance 1e-6 relative to sum|terms| (measured worst 2e-11).",
        "DESIGN.md section 4, C08",
    ),
    "C09": (
        "Hypothesis-generated labelled statistics/initial subspaces; monotonicity of independently computed closed-form phase marginals along the public per-phase steps; differential fit == composition",
        "Generated-input search (2-5 classes, shuffled labels, fractional/zero counts, explicit or seeded U,V,D): after every M-step of the V, U and D phases the phase marginal 1/2 b'L^-1 b - 1/2 log|L| has not decreased; shapes and finiteness hold; JFAMachine.fit equals the composition of the public steps, and V after fit(k) is monotone in k.",
        "Labels are integer arrays 0..K-1; tolerance 1e-9*(1+|value|).",
        "DESIGN.md section 4, C09",
    ),
    "C10": (
        "Hypothesis-generated T/sigma/statistics vs an independent posterior solve; one-step differential against a reference EM step; monotone independently computed marginal likelihood",
        "Generated-input search with fractional and zero counts (incl. a component empty in every item), update_sigma on/off, active and inactive floors: project solves the posterior normal equations (residual + independent solve), empty statistics give the zero vector, transform == map(project); the first training iteration equals a reference EM step from the same seeded T0; the marginal likelihood never decreases while the floor is inactive; sigma >= floor; all finite.",
        "The trajectory is obtained by re-seeding NumPy's global generator before each fit (the initial T is drawn from it).",
        "DESIGN.md section 4, C10",
    ),
    "C11": (
        "Hypothesis-generated machines/clients/probes; reference channel-compensated linear score; differential between array-level and statistics-level entry points",
        "Generated-input search: score equals the reference linear score of the client mean against the pooled probe with the UBM shifted by U x_hat (independent solve), several statistics score as their sum, estimate_x/estimate_ux equal the reference, scoring leaves the probe untouched; score_using_array, enroll_using_array, ISVMachine.transform and fit_using_array (NumPy and Dask, 2-D and 3-D) agree with the statistics-level calls and with the references.",
        "Labels 0..K-1 as integer arrays; nested lists of probe templates are not generated (estimate_x does not accept them).",
        "DESIGN.md section 4, C11",
    ),
    "C13": (
        "Hypothesis-constructed degenerate training sets; validity predicate evaluated after every iteration for every trainer",
        "Generated-input search on degenerate data by construction (duplicates, constant columns, fewer distinct rows than components, outliers, identical rows, starved components/centroids, zero-count i-vector components) for k-means, GMM ML, GMM MAP, k-means-initialised GMM and i-vector training: parameters finite, weights on the simplex up to the count floor, variances >= floors and > 0, sigma >= floor, finite training log-likelihoods, after every iteration.",
        "Strictly positive variance floors; |features| <= 1e6.",
        "DESIGN.md section 4, C13",
    ),
    "C20": (
        "Hypothesis-generated centroids/rows with large offsets vs explicit squared differences; nearest-centroid validity predicate; member statistics vs numpy.var within the formula's forward-error bound; exact GMM initialisation differential",
        "Generated-input search (offsets up to 1e8 spreads, single sample / batch / every generated row-chunking): transform equals explicit squared distances, predict returns a nearest centroid, NumPy == Dask == single; cluster weights are member fractions and variances the biased member variances within 16*n*eps*max(x^2); a GMM initialised from k-means starts from exactly those centroids, floored variances and weights.",
        "Statistics of empty clusters belong to C13; assignment ties discarded for the statistics checks.",
        "DESIGN.md section 4, C20",
    ),
    "C04": (
        "Hypothesis-generated chunkings + harness-owned Dask executor (generated task order, optional cloudpickle isolation); differential Dask vs in-memory",
        "Generated-input search over estimators (k-means, GMM ML/MAP/k-means-initialised, ISV/JFA fit_using_array, WCCN, whitening), row and feature chunk compositions, executor order policies (graph order, reverse, seeded random choice among ready tasks) and isolation (every task and result round-tripped through cloudpickle): parameters, the k-means criterion and the number of iterations equal those of in-memory training.",
        "'k-means||' excluded (third-party initialiser draws per block); stop decisions within 1e-6 of the threshold discarded; all topological orders are reachable by the executor but only sampled; real multi-process timing is not exercised in the quick tier.",
        "DESIGN.md sections 3.3 and 4, C04",
    ),
    "C12": (
        "Hypothesis-generated bag layouts (from_sequence and from_delayed with uneven/empty partitions) + harness-owned executor; differential bag vs list; duplicate-item metamorphic relation; enumeration of every partition count",
        "Generated-input search for ISV, JFA and i-vector training from Dask bags: every generated partitioning (incl. empty, single-element, class-mixing partitions, unsorted labels), task order and isolation mode gives the in-memory model; duplicating an item changes the model exactly as in the list; every partition count 1..n is enumerated for small n.",
        "Labels 0..K-1 as integer arrays; i-vector runs re-seed NumPy's global generator; tolerance 1e-7 relative.",
        "DESIGN.md sections 3.3 and 4, C12",
    ),
    "C14": (
        "Hypothesis-generated full-rank data, partitions, arbitrary integer label maps and row permutations; identity-covariance/scatter validity predicate; relabelling and permutation metamorphic relations; Dask differential",
        "Generated-input search: whitening gives zero mean and identity sample covariance; WCCN gives within-class scatter / K = identity; both projections are lower-triangular with positive diagonal; WCCN weights are invariant under arbitrary (negative, huge, non-contiguous, unsorted) label values and row order; Dask equals NumPy; pinv on and off.",
        "Condition numbers bounded by 1e6 (tolerance 1e5*eps*cond); whitening generated with F >= 2.",
        "DESIGN.md section 4, C14",
    ),
    "C15": (
        "Hypothesis-generated affine re-coordinatisations (per-feature scale of either sign and shift; rotation/scale/translation for k-means); metamorphic equivariance/invariance relations",
        "Generated-input search: the same observable is evaluated on (data, parameters) and on the re-coordinatised problem; trained GMMs (ML, MAP) map to a*mu+b / a^2*var / same weights, log-likelihoods shift by -sum log|a|, linear scores, ISV/JFA scores, x, y, z and i-vectors are unchanged, the enrolled client mean follows the features, k-means centroids follow similarity transforms and the criterion scales by s^2. KF-1 recognised only by its exact wrong value in either coordinate system.",
        "Fixed iteration counts (the relative-change stop rule is not shift-invariant by construction); tolerance scales with kappa=|b|/(|a| std) (kappa^2 for variance formulas); floor-active steps excluded.",
        "DESIGN.md section 4, C15",
    ),
    "C16": (
        "Model-based history generation (op lists: global-RNG perturbations, other fits, re-fits) with an equality invariant; row-permutation and class-renaming metamorphic relations",
        "Generated histories over k-means, GMM, ISV, JFA (list and Dask bag) and WCCN: re-fitting a registered (configuration, data, random_state) triple after arbitrary global-RNG perturbations and other fits reproduces the first result to 1e-12; permuting the training rows and renaming class ids by any permutation of 0..K-1 leaves the model unchanged up to re-association rounding.",
        "Row-permutation invariance is only claimed given the same initial centroids/parameters (seeded random initialisation picks rows by position by design).",
        "DESIGN.md section 4, C16",
    ),
    "C17": (
        "Model-based history generation (op lists of public GMM mutations) with a differential invariant against a freshly built machine and a SciPy reference after every step",
        "Generated histories of setter calls (weights, means, variances below floors, scalar/vector/matrix/zero floors raised and lowered), single EM steps (ML and MAP), deepcopy, pickle, HDF5 save+from_hdf5 and save+load into a differently shaped machine: after every operation likelihoods and statistics equal those of a fresh machine with the same visible parameters and of the reference density, and variances >= current floors.",
        "EM steps are skipped (counted) when a floor or variance is exactly 0.",
        "DESIGN.md section 4, C17",
    ),
    "C18": (
        "Hypothesis-generated reachable machines/statistics; round-trip oracle (bit-identical), continued-training differential, file re-save comparison, harness-written legacy layouts",
        "Generated-input search: machines (ML and MAP, after EM steps, every floor form incl. floors below machine epsilon, every switch combination, caps and thresholds) and statistics survive 1-3 save/load round trips through paths or open files, via from_hdf5 or load into an object of another shape, bit for bit, equal under ==, with every recorded setting, and the original and reloaded machine continue training to bit-identical models; re-saved files have identical datasets; legacy-layout files equal their current-format counterparts.",
        "None for max_fitting_steps/convergence_threshold cannot be written and is outside the generator.",
        "DESIGN.md section 4, C18",
    ),
    "C19": (
        "Model-based history generation over a pool of caller-owned objects and every public entry point; byte-snapshot invariant, repeatability, NaN-overwrite aliasing probes",
        "Generated call sequences (3-10 calls over 18 entry-point groups, NumPy/Dask/bag inputs): after every call each pool member is byte-for-byte unchanged, repeating the call returns the same result, and after every training call overwriting private copies of the training data, statistics, initial centroids and MAP prior arrays leaves the trained parameters unchanged (np.shares_memory also checked).",
        "Arrays assigned by the caller through a public setter are not considered 'trained from' (plain attribute semantics).",
        "DESIGN.md section 4, C19",
    ),
}

NOT_YET = {}

# sentences appended to the level text (obligations added while the checks were being strengthened, DESIGN.md 8.5)
EXTRA = {
    "C01": " Also: single / batch / Dask agreement with means up to 1e6 standard deviations from the origin, 8..64 features, 1e3..7e4 rows in one call and a dozen or two of Dask row blocks; weights below machine epsilon, weights on another scale than sum-to-one, weights set through the constructor or an in-place operator; tied and permuted variance vectors; two parameter sets scored on one Dask array and computed together.",
    "C02": " Also: the reduction in front of the M-step (module-level m_step on per-block statistics and a one-step Dask fit with the same blocks) consumes the sum over every block; 1e3..7e4 rows in one call; blocks reloaded from HDF5 into containers of the same or another shape; empty containers as operands of mismatched additions; lazy (Dask-backed) block statistics added with + and +=; mixtures of 17..40 components; ML or MAP machines with any update switches.",
    "C03": " Also: integer-typed training rows; the exact number of M-steps performed is compared with the stop rule (thresholds down to 1e-12 and 0, caps up to 30) whenever no convergence value comes within rounding of the threshold; a fit still iterating after the predicted stop is reported through the harness's iteration budget; settings that arrive after construction (set_params, attributes, a MAP machine switched to ML); a second fit() on the same object applies the rule afresh; unknown-chunk Dask arrays and rows at the origin forming blocks.",
    "C04": " Also: the number of iterations (counted M-steps) is compared; blocks of 1e3..7e4 rows with the k-means criterion checked against the definition; count floors up to 0.3; unknown-chunk Dask arrays; WCCN classes with a single sample.",
    "C05": " Also: integer-typed adaptation data; count floors up to 0.3; per-component ratio arrays; the M-step function called directly vs one fit iteration; priors that are themselves MAP-adapted machines.",
    "C06": " Also: data 1e3..1e8 spreads away from the origin (tolerances follow the rounding of differences), 1e3..7e4 rows (and 32 clusters x 4e4..7e4 rows), an iteration budget for fits that do not stop, and settings that arrive after construction (set_params, attributes, clone).",
    "C07": " Also: a machine that has enrolled, is then re-trained / edited in place / re-pointed to another UBM and enrols again behaves like a fresh machine with the same parameters; statistics whose arrays are still lazy.",
    "C08": " Also: statistics whose arrays are lazy; components with posterior mass at the bottom of the float range; the same statistics object listed twice with per-item offsets; the normalisation flag as np.bool_ / 0 / 1; a model 1e-7 (relative) off the UBM.",
    "C09": " Also: fit_using_array runs the same phases as fit on the statistics of the same arrays (NumPy and Dask); a second fit() on the same machine ends where a fresh machine started from the first result ends.",
    "C10": " Also: integer-typed sigma / T; variance floors above the held values; training from bags (built or lazily mapped) on the isolating executor; UBMs of 9..17 components of which two to four are reached.",
    "C11": " Also: features in any unit (standard deviations 1e-6..1e3); clients with a residual offset of exactly zero; probes of 1e5..1e9 frames with channel directions of very different strength (condition numbers 1e10..1e12, tolerance 1e3*eps*cond); a probe handed over as a bare 2-D array; 3-D Dask input chunked along the frame axis; a UBM that is an ML machine warm-started from another GMM.",
    "C12": " Also: the same bag object trained from twice in one process with two different labellings; lazily mapped bags; 5-6 EM iterations.",
    "C13": " Also: 16..48 features with floor-level or huge variances (products of variances outside the double range); machines whose variances are left to fit's fallback under floors above 1; scalar and per-component MAP ratios.",
    "C14": " Also: data up to 1e7 spreads away from the origin; integer-typed data; huge consecutive class ids; errors raised while a lazy result is evaluated are attributed to the code under test.",
    "C15": " Also: fixed-ratio and Reynolds MAP with a prior component of tiny-positive or zero responsibility mass; the k-means relation on Dask input with rows stored cluster after cluster, with a threshold, and with starts that leave a cluster without rows; a GMM initialised from k-means under similarity transforms; the public M-step called directly with the switches as arguments.",
    "C16": " Also: ISV/JFA machines whose UBM is trained at fit time (also under renamed classes); WCCN on Dask input in the row-order relation and with single-sample classes; seeded k-means initialisers on few rows with up to five clusters.",
    "C17": " Also: floors given as a (K,1) column or (1,D) row; the machine's arrays lent to another machine; operations whose effect is only observed later (likelihoods are not evaluated after every step); Gaussians of another feature dimension assigned through the setters; machines that only hold means and floors before training; training steps on Dask input on a memory-sharing or an isolating executor.",
    "C18": " Also: machines whose own parameters were assigned through the setters whatever their switches; a legacy file read again after another machine file, and read with a UBM argument like its counterpart.",
    "C19": " Also: features in any unit (variances down to 1e-12) and i-vector statistics with a component that has no data anywhere; labels kept as an (N,1) column; per-component MAP ratio arrays and constructor weights as caller-owned arrays; count floors that starve every component; machines that draw their own starting matrices.",
    "C20": " Also: a machine that has answered, has its centroids edited in place / re-assigned / re-trained and answers again; 1e3..7e4 rows in one call; up to 14 centroids; lazy transform / predict results used as they are (declared shapes, single columns and labels).",
}


def main():
    props = [json.loads(l) for l in open(os.path.join(HERE, "properties.jsonl"))]
    checks = []
    na = []
    for p in props:
        pid = p["id"]
        if pid in CHECKS:
            tech, text, note, ref = CHECKS[pid]
            text = text + EXTRA.get(pid, "")
            checks.append(
                {
                    "property_id": pid,
                    "quick_cmd": "./check %s --tier quick" % pid,
                    "thorough_cmd": "./check %s --tier thorough" % pid,
                    "evidence_file": "/verif/evidence/%s.json" % pid,
                    "replay_cmd_template": "./check %s --replay {path}" % pid,
                    "engine": "hypothesis-pbt",
                    "level_claimed": {"category": "exploration", "text": text, "design_ref": ref},
                    "level_note": note,
                    "technique": tech,
                }
            )
        else:
            na.append({"property_id": pid, "reason": NOT_YET.get(pid, "check not built yet in this round (planned in DESIGN.md section 4); property-based testing applies")})
    man = {
        "version": 1,
        "setup_cmd": "/venv/bin/python -c 'import hypothesis' 2>/dev/null || /venv/bin/pip install --no-index --find-links /opt/veriftools/wheels hypothesis",
        "hooks": {
            "guard": "BOB_LEARN_EM_VERIF",
            "enable": "no source hooks are needed: checks import /repo/src directly (./check sets BOB_LEARN_EM_VERIF=1 for completeness)",
            "baseline_off_cmd": "cd /repo && /venv/bin/python -m pytest -ra -q -p no:cacheprovider --timeout=900 --continue-on-collection-errors",
            "source_commits": [],
            "add_only": True,
        },
        "engines": [
            {
                "name": "hypothesis-pbt",
                "path": "/verif/vf",
                "serves_properties": [c["property_id"] for c in checks],
                "kind_free_text": "Hypothesis 6.168 generated-input search against reference models, differential and metamorphic relations; own Dask executor for schedules/isolation; JSON replay files",
            }
        ],
        "checks": checks,
        "notes": "Entry point ./check <id> --tier quick|thorough [--replay file]. Exit 0 held / 1 VIOLATION / 2 harness error. known_findings.json lists recorded findings and fixed: entries.",
        "not_applicable": na,
    }
    with open(os.path.join(HERE, "MANIFEST.json"), "w") as f:
        json.dump(man, f, indent=1)
    print("wrote MANIFEST.json: %d checks, %d not claimed" % (len(checks), len(na)))


if __name__ == "__main__":
    main()
