#!/venv/bin/python
"""Regenerates /verif/MANIFEST.json from the table below (kept in one place so it stays valid)."""
import json
import os

HERE = os.path.dirname(os.path.dirname(os.path.abspath(__file__)))

# id -> (technique, level text, level note, design section)
CHECKS = {
    "C01": (
        "Hypothesis-generated GMMs and samples vs a SciPy reference density; single/batch/Dask differential; numeric integral of the density",
        "Generated-input search: thousands of (model, sample) cases with mixed feature scales, floors and tail samples are compared with an independent SciPy mixture log-density, the single-vector / batch / row-chunked Dask paths are compared with each other, and exp(log_likelihood) is integrated numerically. Held = no disagreement on everything generated.",
        "Trusts scipy.stats.norm.logpdf and scipy.special.logsumexp as the reference; dimensions bounded (C<=8, F<=6).",
        "DESIGN.md section 4, C01",
    ),
    "C02": (
        "Hypothesis-generated data/splits vs reference responsibility-weighted moments; split-and-add metamorphic relation incl. exhaustive enumeration of all 2^(n-1) compositions for small n",
        "Generated-input search: statistics of generated data equal independently computed weighted moments (NumPy and Dask input); any permutation+composition of the rows into blocks, added with + or +=, equals the whole; every composition is enumerated for n<=7 (quick) / n<=10 (thorough); operands are never mutated; incompatible shapes are refused without side effect.",
        "Trusts the SciPy-based posterior reference; re-association tolerance 1e-10 relative.",
        "DESIGN.md section 4, C02",
    ),
    "C03": (
        "Hypothesis-generated trainings vs a reference EM trajectory: one-step M-step differential, monotonicity of an independently computed likelihood, predicted stop iteration",
        "Generated-input search over data, initial models, all 8 update-switch combinations, floors, thresholds and caps (NumPy and Dask): one iteration equals the reference M-step; the SciPy-computed mean log-likelihood never decreases at floor-free steps; fit(threshold, cap) returns the model of exactly the predicted iteration on the reference trajectory.",
        "Strictly positive floors; floor-active steps exempt from monotonicity; cases within 1e-6 of the threshold discarded and counted; iteration count is observed through the returned model (undecidable when neighbouring iterates coincide, counted as non-decisive).",
        "DESIGN.md section 4, C03",
    ),
    "C05": (
        "Hypothesis-generated priors/data/relevance vs reference Reynolds eqs. 11-13; limit and monotone-objective metamorphic checks; reference trajectory differential",
        "Generated-input search: first MAP iteration equals the reference blend (incl. exactly-zero-evidence components and fixed ratios), weights renormalised, prior bit-for-bit untouched; r=1e12 returns the prior and r=1e-12 the ML estimate; means-only adaptation never decreases the relevance-penalised likelihood; K iterations follow the reference trajectory. Known finding KF-1 (variance blend) is recognised only by its exact wrong value.",
        "KF-1 open: multi-iteration runs with update_variances are excluded by construction and counted; the variance limit r->0 is compared with ML only when means are updated too (the statement's explicit formula is authoritative otherwise).",
        "DESIGN.md section 4, C05",
    ),
    "C06": (
        "Hypothesis-generated k-means trainings vs a reference Lloyd step written with explicit differences; independent distortion monotone; predicted stop iteration",
        "Generated-input search (explicit, seeded 'random' and 'k-means||' initialisation; NumPy and Dask; slow-converging 1-D sets so that caps up to 12 matter): each centroid equals the mean of the rows nearest to its predecessor, the independently computed distortion never rises while no cluster is empty, the reported criterion equals the mean squared distance for the centroids entering the last iteration (also via transform), and fit(threshold, cap) stops at the predicted iteration.",
        "'k-means++' excluded (third-party signature breakage in this environment); near-ties discarded and counted; empty-cluster steps exempt from descent.",
        "DESIGN.md section 4, C06",
    ),
    "C07": (
        "Hypothesis-generated UBM/U/V/D/sessions; differential against reference block coordinate ascent; monotone joint log-posterior; fixed point vs dense-solve joint mode",
        "Generated-input search with D of order 1 (every coupling alive), fractional and zero counts, 1-5 sessions: enroll(K) equals K rounds of conditional-mode updates written from the model; the joint log-posterior of the reconstructed state never decreases in K and never exceeds its value at the exact mode; when the iterates stop moving (K up to 2048) they equal the mode from one dense solve.",
        "Convergence is checked through fixed points (not 'eventually'); runs that have not converged within 2048 iterations are counted inconclusive.",
        "DESIGN.md section 4, C07",
    ),
    "C08": (
        "Hypothesis-generated UBMs/models/statistics/offsets vs a triple-loop reference; algebraic (metamorphic) laws; finite-difference derivative identity",
        "Generated-input search over every accepted input form (machines, 2-D/3-D arrays, lists; single or list statistics incl. zero-frame and sum(n)!=t; scalar / (C,F) / (T,C,F) offsets; prior or MAP machine as UBM): equals the reference; zero for the UBM; homogeneous and additive in the model offset; additive over statistics; and equals the Richardson-extrapolated derivative of the UBM log-likelihood along the model direction.",
        "Finite-difference tolerance 1e-6 relative to sum|terms| (measured worst 2e-11).",
        "DESIGN.md section 4, C08",
    ),
    "C09": (
        "Hypothesis-generated labelled statistics/initial subspaces; monotonicity of independently computed closed-form phase marginals along the public per-phase steps; differential fit == composition",
        "Generated-input search (2-5 classes, shuffled labels, fractional/zero counts, explicit or seeded U,V,D): after every M-step of the V, U and D phases the phase marginal 1/2 b'L^-1 b - 1/2 log|L| has not decreased; shapes and finiteness hold; JFAMachine.fit equals the composition of the public steps, and V after fit(k) is monotone in k.",
        "Labels are integer arrays 0..K-1; tolerance 1e-9*(1+|value|).",
        "DESIGN.md section 4, C09",
    ),
    "C10": (
        "Hypothesis-generated T/sigma/statistics vs an independent posterior solve; one-step differential against a reference EM step; monotone independently computed marginal likelihood",
        "Generated-input search with fractional and zero counts (incl. a component empty in every item), update_sigma on/off, active and inactive floors: project solves the posterior normal equations (residual + independent solve), empty statistics give the zero vector, transform == map(project); the first training iteration equals a reference EM step from the same seeded T0; the marginal likelihood never decreases while the floor is inactive; sigma >= floor; all finite.",
        "The trajectory is obtained by re-seeding NumPy's global generator before each fit (the initial T is drawn from it).",
        "DESIGN.md section 4, C10",
    ),
    "C11": (
        "Hypothesis-generated machines/clients/probes; reference channel-compensated linear score; differential between array-level and statistics-level entry points",
        "Generated-input search: score equals the reference linear score of the client mean against the pooled probe with the UBM shifted by U x_hat (independent solve), several statistics score as their sum, estimate_x/estimate_ux equal the reference, scoring leaves the probe untouched; score_using_array, enroll_using_array, ISVMachine.transform and fit_using_array (NumPy and Dask, 2-D and 3-D) agree with the statistics-level calls and with the references.",
        "Labels 0..K-1 as integer arrays; nested lists of probe templates are not generated (estimate_x does not accept them).",
        "DESIGN.md section 4, C11",
    ),
    "C13": (
        "Hypothesis-constructed degenerate training sets; validity predicate evaluated after every iteration for every trainer",
        "Generated-input search on degenerate data by construction (duplicates, constant columns, fewer distinct rows than components, outliers, identical rows, starved components/centroids, zero-count i-vector components) for k-means, GMM ML, GMM MAP, k-means-initialised GMM and i-vector training: parameters finite, weights on the simplex up to the count floor, variances >= floors and > 0, sigma >= floor, finite training log-likelihoods, after every iteration.",
        "Strictly positive variance floors; |features| <= 1e6.",
        "DESIGN.md section 4, C13",
    ),
    "C20": (
        "Hypothesis-generated centroids/rows with large offsets vs explicit squared differences; nearest-centroid validity predicate; member statistics vs numpy.var within the formula's forward-error bound; exact GMM initialisation differential",
        "Generated-input search (offsets up to 1e8 spreads, single sample / batch / every generated row-chunking): transform equals explicit squared distances, predict returns a nearest centroid, NumPy == Dask == single; cluster weights are member fractions and variances the biased member variances within 16*n*eps*max(x^2); a GMM initialised from k-means starts from exactly those centroids, floored variances and weights.",
        "Statistics of empty clusters belong to C13; assignment ties discarded for the statistics checks.",
        "DESIGN.md section 4, C20",
    ),
}

NOT_YET = {}


def main():
    props = [json.loads(l) for l in open(os.path.join(HERE, "properties.jsonl"))]
    checks = []
    na = []
    for p in props:
        pid = p["id"]
        if pid in CHECKS:
            tech, text, note, ref = CHECKS[pid]
            checks.append(
                {
                    "property_id": pid,
                    "quick_cmd": "./check %s --tier quick" % pid,
                    "thorough_cmd": "./check %s --tier thorough" % pid,
                    "evidence_file": "/verif/evidence/%s.json" % pid,
                    "replay_cmd_template": "./check %s --replay {path}" % pid,
                    "engine": "hypothesis-pbt",
                    "level_claimed": {"category": "exploration", "text": text, "design_ref": ref},
                    "level_note": note,
                    "technique": tech,
                }
            )
        else:
            na.append({"property_id": pid, "reason": NOT_YET.get(pid, "check not built yet in this round (planned in DESIGN.md section 4); property-based testing applies")})
    man = {
        "version": 1,
        "setup_cmd": "/venv/bin/python -c 'import hypothesis' 2>/dev/null || /venv/bin/pip install --no-index --find-links /opt/veriftools/wheels hypothesis",
        "hooks": {
            "guard": "BOB_LEARN_EM_VERIF",
            "enable": "no source hooks are needed: checks import /repo/src directly (./check sets BOB_LEARN_EM_VERIF=1 for completeness)",
            "baseline_off_cmd": "cd /repo && /venv/bin/python -m pytest -ra -q -p no:cacheprovider --timeout=900 --continue-on-collection-errors",
            "source_commits": [],
            "add_only": True,
        },
        "engines": [
            {
                "name": "hypothesis-pbt",
                "path": "/verif/vf",
                "serves_properties": [c["property_id"] for c in checks],
                "kind_free_text": "Hypothesis 6.168 generated-input search against reference models, differential and metamorphic relations; own Dask executor for schedules/isolation; JSON replay files",
            }
        ],
        "checks": checks,
        "notes": "Entry point ./check <id> --tier quick|thorough [--replay file]. Exit 0 held / 1 VIOLATION / 2 harness error. known_findings.json lists recorded findings and fixed: entries.",
        "not_applicable": na,
    }
    with open(os.path.join(HERE, "MANIFEST.json"), "w") as f:
        json.dump(man, f, indent=1)
    print("wrote MANIFEST.json: %d checks, %d not claimed" % (len(checks), len(na)))


if __name__ == "__main__":
    main()
