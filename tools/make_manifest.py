#!/venv/bin/python
"""Regenerates /verif/MANIFEST.json from the table below (kept in one place so it stays valid)."""
import json
import os

HERE = os.path.dirname(os.path.dirname(os.path.abspath(__file__)))

# id -> (technique, level text, level note, design section)
CHECKS = {
    "C01": (
        "Hypothesis-generated GMMs and samples vs a SciPy reference density; single/batch/Dask differential; numeric integral of the density",
        "Generated-input search: thousands of (model, sample) cases with mixed feature scales, floors and tail samples are compared with an independent SciPy mixture log-density, the single-vector / batch / row-chunked Dask paths are compared with each other, and exp(log_likelihood) is integrated numerically. Held = no disagreement on everything generated.",
        "Trusts scipy.stats.norm.logpdf and scipy.special.logsumexp as the reference; dimensions bounded (C<=8, F<=6).",
        "DESIGN.md section 4, C01",
    ),
    "C02": (
        "Hypothesis-generated data/splits vs reference responsibility-weighted moments; split-and-add metamorphic relation incl. exhaustive enumeration of all 2^(n-1) compositions for small n",
        "Generated-input search: statistics of generated data equal independently computed weighted moments (NumPy and Dask input); any permutation+composition of the rows into blocks, added with + or +=, equals the whole; every composition is enumerated for n<=7 (quick) / n<=10 (thorough); operands are never mutated; incompatible shapes are refused without side effect.",
        "Trusts the SciPy-based posterior reference; re-association tolerance 1e-10 relative.",
        "DESIGN.md section 4, C02",
    ),
    "C03": (
        "Hypothesis-generated trainings vs a reference EM trajectory: one-step M-step differential, monotonicity of an independently computed likelihood, predicted stop iteration",
        "Generated-input search over data, initial models, all 8 update-switch combinations, floors, thresholds and caps (NumPy and Dask): one iteration equals the reference M-step; the SciPy-computed mean log-likelihood never decreases at floor-free steps; fit(threshold, cap) returns the model of exactly the predicted iteration on the reference trajectory.",
        "Strictly positive floors; floor-active steps exempt from monotonicity; cases within 1e-6 of the threshold discarded and counted; iteration count is observed through the returned model (undecidable when neighbouring iterates coincide, counted as non-decisive).",
        "DESIGN.md section 4, C03",
    ),
    "C05": (
        "Hypothesis-generated priors/data/relevance vs reference Reynolds eqs. 11-13; limit and monotone-objective metamorphic checks; reference trajectory differential",
        "Generated-input search: first MAP iteration equals the reference blend (incl. exactly-zero-evidence components and fixed ratios), weights renormalised, prior bit-for-bit untouched; r=1e12 returns the prior and r=1e-12 the ML estimate; means-only adaptation never decreases the relevance-penalised likelihood; K iterations follow the reference trajectory. Known finding KF-1 (variance blend) is recognised only by its exact wrong value.",
        "KF-1 open: multi-iteration runs with update_variances are excluded by construction and counted; the variance limit r->0 is compared with ML only when means are updated too (the statement's explicit formula is authoritative otherwise).",
        "DESIGN.md section 4, C05",
    ),
}

NOT_YET = {}


def main():
    props = [json.loads(l) for l in open(os.path.join(HERE, "properties.jsonl"))]
    checks = []
    na = []
    for p in props:
        pid = p["id"]
        if pid in CHECKS:
            tech, text, note, ref = CHECKS[pid]
            checks.append(
                {
                    "property_id": pid,
                    "quick_cmd": "./check %s --tier quick" % pid,
                    "thorough_cmd": "./check %s --tier thorough" % pid,
                    "evidence_file": "/verif/evidence/%s.json" % pid,
                    "replay_cmd_template": "./check %s --replay {path}" % pid,
                    "engine": "hypothesis-pbt",
                    "level_claimed": {"category": "exploration", "text": text, "design_ref": ref},
                    "level_note": note,
                    "technique": tech,
                }
            )
        else:
            na.append({"property_id": pid, "reason": NOT_YET.get(pid, "check not built yet in this round (planned in DESIGN.md section 4); property-based testing applies")})
    man = {
        "version": 1,
        "setup_cmd": "/venv/bin/python -c 'import hypothesis' 2>/dev/null || /venv/bin/pip install --no-index --find-links /opt/veriftools/wheels hypothesis",
        "hooks": {
            "guard": "BOB_LEARN_EM_VERIF",
            "enable": "no source hooks are needed: checks import /repo/src directly (./check sets BOB_LEARN_EM_VERIF=1 for completeness)",
            "baseline_off_cmd": "cd /repo && /venv/bin/python -m pytest -ra -q -p no:cacheprovider --timeout=900 --continue-on-collection-errors",
            "source_commits": [],
            "add_only": True,
        },
        "engines": [
            {
                "name": "hypothesis-pbt",
                "path": "/verif/vf",
                "serves_properties": [c["property_id"] for c in checks],
                "kind_free_text": "Hypothesis 6.168 generated-input search against reference models, differential and metamorphic relations; own Dask executor for schedules/isolation; JSON replay files",
            }
        ],
        "checks": checks,
        "notes": "Entry point ./check <id> --tier quick|thorough [--replay file]. Exit 0 held / 1 VIOLATION / 2 harness error. known_findings.json lists recorded findings and fixed: entries.",
        "not_applicable": na,
    }
    with open(os.path.join(HERE, "MANIFEST.json"), "w") as f:
        json.dump(man, f, indent=1)
    print("wrote MANIFEST.json: %d checks, %d not claimed" % (len(checks), len(na)))


if __name__ == "__main__":
    main()
