#!/bin/bash
# usage: seed_eval.sh <worktree> <prop> [more props]   -- confirm a seeded change and run checks against it
# (development tool). SEED/patch.diff and SEED/demo.py must exist in <worktree>; the patch is the authority.
wt=$1; shift
cd "$wt" || exit 2
git checkout -q -- src && git apply SEED/patch.diff || { echo "patch does not apply"; exit 2; }
echo "== patch"; git diff --stat -- src | tail -3
echo "== demo WITH change"; PYTHONPATH=$wt/src /venv/bin/python SEED/demo.py > /tmp/demo_with.$$.log 2>&1; echo "exit=$?"; tail -3 /tmp/demo_with.$$.log
git apply -R SEED/patch.diff
echo "== demo WITHOUT change"; PYTHONPATH=$wt/src /venv/bin/python SEED/demo.py > /tmp/demo_without.$$.log 2>&1; echo "exit=$?"; tail -2 /tmp/demo_without.$$.log
git apply SEED/patch.diff
rm -f /tmp/demo_with.$$.log /tmp/demo_without.$$.log
if [ -z "$NOSUITE" ]; then
echo "== suite WITH change"; PYTHONPATH=$wt/src /venv/bin/python -m pytest -q -p no:cacheprovider --no-cov --timeout=900 tests 2>&1 | grep -E "^FAILED|passed|failed"
fi
for p in "$@"; do
  echo "== check $p (quick) against the changed tree"
  (cd /verif && VERIF_REPO=$wt ./check $p --tier quick --no-evidence 2>&1 | grep -E "VIOLATION|^  \[|seed=" | cut -c1-260)
done
