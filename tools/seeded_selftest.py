#!/venv/bin/python
"""Re-runs every kept seeded change (seeded/<sid>/patch.diff) against the current checks (development tool).

For each seed: copy /repo/src to a scratch directory outside /repo and /verif, apply the patch with `patch -p1`,
run the quick check of the property the seed targets with VERIF_REPO pointing at the copy (must exit 1 with a
VIOLATION line), delete the copy.

usage: seeded_selftest.py [--only S01,S02] [--par 3] [--jobs 5] [--tier quick] [--keep]
"""
import argparse
import concurrent.futures as cf
import glob
import json
import os
import shutil
import subprocess
import sys
import tempfile
import time

VERIF = os.path.dirname(os.path.dirname(os.path.abspath(__file__)))
ap = argparse.ArgumentParser()
ap.add_argument("--only", default=None)
ap.add_argument("--par", type=int, default=3)
ap.add_argument("--jobs", type=int, default=5)
ap.add_argument("--tier", default="quick")
ap.add_argument("--as", dest="as_prop", default=None, help="run the check of ANOTHER property against the seeds (cross-catch record)")
ap.add_argument("--keep", action="store_true", help="copy each shrunk failing case to replays/<prop>/regress/<sid>__<obligation>.json")
a = ap.parse_args()
only = set(a.only.split(",")) if a.only else None


def one(d):
    sid = os.path.basename(d).split("-")[0]
    meta = json.load(open(os.path.join(d, "meta.json")))
    prop = a.as_prop or meta["property"]
    tmp = tempfile.mkdtemp(prefix="vfseed_")
    try:
        shutil.copytree("/repo/src", os.path.join(tmp, "src"), ignore=shutil.ignore_patterns("__pycache__", "*.egg-info"))
        r = subprocess.run(["patch", "-p1", "-s", "-i", os.path.join(d, "patch.diff")], cwd=tmp, capture_output=True, text=True)
        if r.returncode != 0:
            return sid, prop, "PATCH-FAILED", 0.0, (r.stdout + r.stderr)[-300:]
        t = time.time()
        r = subprocess.run([os.path.join(VERIF, "check"), prop, "--tier", a.tier, "--no-evidence", "--jobs", str(a.jobs)],
                           env=dict(os.environ, VERIF_REPO=tmp, VERIF_SEED=os.environ.get("VERIF_SEED", "1")),
                           capture_output=True, text=True)
        lines = [l for l in r.stdout.splitlines() if l.startswith("  [")]
        if a.keep and r.returncode == 1:
            for l in r.stdout.splitlines():
                if l.startswith("VIOLATION property=%s" % prop) and "replay=" in l:
                    src = l.split("replay=", 1)[1].strip()
                    if "/regress/" in src:
                        continue  # an already committed replay caught it
                    try:
                        doc = json.load(open(src))
                        doc["from_seeded_change"] = sid
                        ob = "".join(ch if ch.isalnum() else "_" for ch in doc["obligation"])[:40]
                        dst = os.path.join(VERIF, "replays", prop, "regress")
                        os.makedirs(dst, exist_ok=True)
                        json.dump(doc, open(os.path.join(dst, "%s__%s.json" % (sid, ob)), "w"), indent=1, sort_keys=True)
                    except Exception as e:  # noqa: BLE001
                        print("could not keep", src, e)
        status = "CAUGHT" if r.returncode == 1 and "VIOLATION property=%s" % prop in r.stdout else (
            "ERROR" if r.returncode == 2 else "MISSED")
        return sid, prop, status, time.time() - t, (lines[0][:150] if lines else r.stderr[-200:])
    finally:
        shutil.rmtree(tmp, ignore_errors=True)


dirs = sorted(glob.glob(os.path.join(VERIF, "seeded", "S*")))
if only:
    dirs = [d for d in dirs if os.path.basename(d).split("-")[0] in only]
bad = 0
with cf.ThreadPoolExecutor(a.par) as ex:
    for sid, prop, status, dt, info in ex.map(one, dirs):
        if status != "CAUGHT":
            bad += 1
        print("%-7s %s %s %5.1fs  %s" % (status, sid, prop, dt, info))
        sys.stdout.flush()
print("seeded changes: %d, not caught by the check of their own property: %d" % (len(dirs), bad))
sys.exit(1 if bad else 0)
