#!/bin/bash
# usage: seed_suite.sh <worktree>...  -- run the repository's suite with each seeded change applied (patch.diff is the authority)
for wt in "$@"; do
  cd "$wt" || continue
  git checkout -q -- src && git apply SEED/patch.diff
  r=$(PYTHONPATH=$wt/src /venv/bin/python -m pytest -q -p no:cacheprovider --no-cov --timeout=900 tests 2>&1 | grep -E "^FAILED|passed|failed" | tr '\n' ';')
  echo "$wt :: $r" | tee SEED/suite_result.txt
done
