#!/venv/bin/python
"""seed_save.py <ID> <worktree> <json-meta>: copies SEED/{patch.diff,demo.py,notes.md} to /verif/seeded/<ID>/ with meta.json."""
import json, os, shutil, sys
sid, wt, meta = sys.argv[1], sys.argv[2], json.loads(sys.argv[3])
dst = os.path.join("/verif/seeded", sid)
os.makedirs(dst, exist_ok=True)
for f in ("patch.diff", "demo.py", "notes.md"):
    shutil.copy(os.path.join(wt, "SEED", f), os.path.join(dst, f))
suite = ""
p = os.path.join(wt, "SEED", "suite_result.txt")
if os.path.exists(p):
    t = open(p).read()
    import re
    m = re.search(r"(\d+ failed, \d+ passed)", t)
    suite = m.group(1) if m else t[-200:]
meta.setdefault("suite_with_change", suite + " (the 5 failures are the baseline's always-fail tests)")
meta.setdefault("confirmed_by", "patch applied to a scratch worktree of /repo HEAD; demo.py run with and without the patch (exit 1 / exit 0); repository suite run with the patch; checks run with VERIF_REPO pointing at the patched worktree")
json.dump(meta, open(os.path.join(dst, "meta.json"), "w"), indent=1)
print("saved", dst)
