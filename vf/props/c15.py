"""C15 — training is equivariant, scoring invariant, under affine feature rescaling/shift."""
import numpy as np

from vf import gen, ref, sut
from vf.runner import Registry

EPS = np.finfo(float).eps

REG = Registry(
    "C15",
    rule=(
        "Hypothesis draws a base configuration as in C03/C05/C06/C07/C08/C10/C11 plus a per-feature scale a "
        "(log-uniform 1e-3..1e3, either sign, mixed) and shift b (kappa = |b|/(|a| std) up to 1e2 for iterated "
        "training, 1e4 for one-step and scoring checks); for k-means a rotation (product of Givens rotations "
        "with generated angles), a uniform scale and a translation. Metamorphic oracle: run the observable on "
        "(data, params) and on (a*data+b, transformed params incl. floors a^2*floor): GMM ML/MAP means a*mu+b, "
        "variances a^2*var, weights equal (fixed iteration counts: the relative-change stop test is not "
        "shift-invariant by construction and is not demanded); log-likelihood shifts by -sum log|a|; linear "
        "scores, ISV/JFA scores, y, x, z and i-vectors unchanged with U,V,T rows scaled by a, D by a, sigma by "
        "a^2; the enrolled client mean follows the features; k-means centroids follow the similarity transform "
        "and the criterion scales by s^2. Non-trivial: scales differ by >= 100x between features or |b| > 10 "
        "sigma, and the means are away from 0/1."
    ),
    assumptions=[
        "a shift is not exact in floating point: tolerance 1e-8*max(1,kappa^2) per EM iteration (x10 per further iteration)",
        "steps at which a variance sits at its floor or a count at the count floor are excluded and counted",
        "known finding KF-1 (MAP variance blend) is recognised only by its exact wrong value",
    ],
)


def affine(draw, F, scales, kappa_max):
    r = gen.rng(draw)
    mode = gen.choice(draw, ["mixed", "mixed", "scale-only", "shift-only"])
    if mode == "shift-only":
        a = np.ones(F)
    else:
        a = 10.0 ** r.uniform(-3, 3, F) * r.choice([-1.0, 1.0], F)
    if mode == "scale-only":
        b = np.zeros(F)
    else:
        kap = 10.0 ** r.uniform(-1, np.log10(kappa_max), F) * r.choice([-1.0, 1.0], F)
        b = kap * np.abs(a) * scales
    return a, b, mode


def kappa(a, b, X):
    sd = X.std(axis=0) + 1e-300
    return float(np.max(np.abs(b) / (np.abs(a) * sd)))


def nontrivial(a, b, scales, means):
    ratio = np.abs(a).max() / np.abs(a).min() >= 100 if len(a) > 1 else abs(np.log10(abs(a[0]))) >= 1
    shift = bool((np.abs(b) > 10 * np.abs(a) * scales).any())
    away = bool((np.abs(means - means**2) > 1e-3 * np.abs(means)).any())
    return bool((ratio or shift) and away)


def tparams(p, a, b):
    q = dict(p)
    q["means"] = a[None, :] * p["means"] + b[None, :]
    q["variances"] = a[None, :] ** 2 * p["variances"]
    fl = np.broadcast_to(np.asarray(p["floors"], float), p["means"].shape)
    q["floors"] = a[None, :] ** 2 * fl
    return q


def tstats(s, a, b):
    n, f, ss = s["n"], s["sum_px"], s.get("sum_pxx")
    out = {"t": s["t"], "n": n.copy(), "sum_px": a[None, :] * f + b[None, :] * n[:, None]}
    if ss is not None:
        out["sum_pxx"] = a[None, :] ** 2 * ss + 2 * a[None, :] * b[None, :] * f + b[None, :] ** 2 * n[:, None]
    return out


# ---------------------------------------------------------------------------- GMM training

def g_gmm(draw):
    c = gen.gmm_training_case(draw, max_rows=24, min_rows=3)
    c["trainer"] = gen.choice(draw, ["ml", "ml", "map"])
    c["K"] = gen.integer(draw, 1, 4)
    a, b, mode = affine(draw, c["init"]["F"], c["scales"], 1e2)
    c.update(a=a, b=b, mode=mode, relevance=float(10.0 ** gen.integer(draw, -1, 2)))
    if c["trainer"] == "map" and c["upd"][1]:
        c["K"] = 1
    return c


def run_gmm(case, init, X):
    from bob.learn.em import GMMMachine

    upd = case["upd"]
    kw = dict(convergence_threshold=None, max_fitting_steps=case["K"], update_means=upd[0], update_variances=upd[1],
              update_weights=upd[2])
    if case["trainer"] == "map":
        ubm = sut.make_gmm(init)
        g = GMMMachine(init["C"], trainer="map", ubm=ubm, map_relevance_factor=case["relevance"], **kw)
    else:
        g = sut.make_gmm(init, trainer="ml", **kw)
    g.fit(X)
    return g


@REG.obligation("gmm_training_equivariant", g_gmm, quick=450, thorough=9000)
def c_gmm(ctx, case):
    """Trained GMMs (ML and MAP) follow x -> a*x + b: means a*mu+b, variances a^2*var, weights unchanged."""
    X, init, a, b, upd = case["X"], case["init"], case["a"], case["b"], case["upd"]
    init2 = tparams(init, a, b)
    X2 = a[None, :] * X + b[None, :]
    # exclusions: floor-active or starved steps amplify rounding by 1/floor
    if case["trainer"] == "ml":
        _, _, active = ref.ml_trajectory(X, (init["weights"], init["means"], init["variances"]), upd, case["K"], EPS,
                                         init["floors"])
        if any(active):
            ctx.discard("floor active")
    else:
        prior_t = (init["weights"], init["means"], init["variances"])
        models, _ = ref.map_trajectory(X, prior_t, [upd[0], False, upd[2]], case["K"], case["relevance"], 0.5, EPS,
                                       init["floors"])
        for (w, mu, var) in models[:-1]:
            n = ref.gmm_stats(X, w, mu, var)["n"]
            if (n < 1e-6).any():
                ctx.discard("starved component")
    g1 = run_gmm(case, init, X)
    g2 = run_gmm(case, init2, X2)
    w1, m1, v1 = sut.params_of(g1)
    w2, m2, v2 = sut.params_of(g2)
    kap = kappa(a, b, X)
    ctx.note(nontrivial(a, b, case["scales"], init["means"]) and any(upd), "trainer:" + case["trainer"], "mode:" + case["mode"],
             "upd:%d%d%d" % tuple(int(u) for u in upd), "negative-scale" if (a < 0).any() else None)
    tol = 1e-8 * max(1.0, kap**2) * 10 ** (case["K"] - 1)
    sd = X.std(axis=0) + 1e-300
    ctx.close(w2, w1, "weights unchanged", rtol=tol, atol=tol * 1e-3)
    ctx.close((m2 - b[None, :]) / a[None, :], m1, "means map to a*mu+b", rtol=0, atol=tol * float(sd.max()) * 10
              + tol * float(np.abs(m1).max()))
    # variances: known finding KF-1 for MAP
    var_ok = True
    if case["trainer"] == "map" and upd[1]:
        hits = []
        for ini, XX, vv in ((init, X, v1), (init2, X2, v2)):
            prior_t = (ini["weights"], ini["means"], ini["variances"])
            s = ref.gmm_stats(XX, *prior_t)
            good = ref.map_mstep(s["n"], s["sum_px"], s["sum_pxx"], XX.shape[0], prior_t, prior_t, upd[0], True, upd[2],
                                 case["relevance"], 0.5, EPS, ini["floors"])
            if (good[2] <= np.asarray(ini["floors"]) * (1 + 1e-6)).any():
                ctx.discard("floor active")
            kf = ref.map_variance_kf1(s["n"], s["sum_px"], s["sum_pxx"], prior_t, good[1], case["relevance"], 0.5, EPS,
                                      ini["floors"])
            sc = float(np.abs(XX).max() + np.abs(ini["means"]).max())
            at = 64 * XX.shape[0] * EPS * sc * sc
            hits.append(np.allclose(vv, kf, rtol=1e-8, atol=at) and not np.allclose(vv, good[2], rtol=1e-8, atol=at))
        if any(hits) and ctx.known_finding("KF-1"):
            var_ok = False
            ctx.event("KF-1 recognised")
    if var_ok:
        ctx.close(v2 / a[None, :] ** 2, v1, "variances map to a^2*var", rtol=tol * 10, atol=tol * float((sd**2).max()))
    ctx.stat_max("kappa", kap)
    if case["trainer"] == "ml":
        # the public M-step called directly, with the update switches as ARGUMENTS on machines whose own switch
        # attributes are the constructor defaults: one step from the same statistics follows the transform as well
        import bob.learn.em.gmm as G

        res = []
        for ini, XX in ((init, X), (init2, X2)):
            gd = sut.make_gmm(ini)
            G.ml_gmm_m_step(gd, gd.acc_stats(XX), update_means=upd[0], update_variances=upd[1], update_weights=upd[2])
            res.append(sut.params_of(gd))
        (dw1, dm1, dv1), (dw2, dm2, dv2) = res
        t1 = 1e-8 * max(1.0, kap**2)
        ctx.close(dw2, dw1, "direct M-step: weights unchanged", rtol=t1, atol=t1 * 1e-3)
        ctx.close((dm2 - b[None, :]) / a[None, :], dm1, "direct M-step: means map to a*mu+b", rtol=0,
                  atol=t1 * float(sd.max()) * 10 + t1 * float(np.abs(dm1).max()))
        ctx.close(dv2 / a[None, :] ** 2, dv1, "direct M-step: variances map to a^2*var", rtol=t1 * 10, atol=t1 * float((sd**2).max()))


def g_map_starved(draw):
    c = gen.gmm_training_case(draw, max_rows=24, min_rows=3)
    init, X = c["init"], c["X"]
    C, F = init["C"], init["F"]
    r = gen.rng(draw)
    c["K"] = gen.integer(draw, 1, 3)
    a, b, mode = affine(draw, F, c["scales"], 1e2)
    c.update(a=a, b=b, mode=mode)
    c["map_mode"] = gen.choice(draw, ["fixed", "fixed", "reynolds"])
    c["relevance"] = float(10.0 ** gen.integer(draw, -1, 2)) if c["map_mode"] == "reynolds" else None
    c["alpha"] = float(gen.choice(draw, [0.5, 1.0, 0.25, draw(gen.st.floats(0.05, 1.0))]))
    c["upd"] = [True, False, gen.boolean(draw)]
    c["starved"] = None
    if C >= 2:
        # one prior component so far from every row that its responsibility mass is tiny but positive (9..38 sd)
        # or exactly zero (1e3 sd)
        j = gen.integer(draw, 0, C - 1)
        far = gen.choice(draw, ["tiny", "tiny", "zero"])
        s = r.uniform(9, 38) if far == "tiny" else 1e3
        sd = np.sqrt(init["variances"][j])
        f = gen.integer(draw, 0, F - 1)
        m = np.array(init["means"], copy=True)
        edge = X[:, f].max() if gen.boolean(draw) else X[:, f].min()
        m[j] = X[r.integers(0, X.shape[0])]
        m[j, f] = edge + (1.0 if edge == X[:, f].max() else -1.0) * s * sd[f]
        init["means"] = m
        c["starved"] = far
    return c


@REG.obligation("map_means_equivariant_with_starved_components", g_map_starved, quick=300, thorough=6000)
def c_map_starved(ctx, case):
    """MAP adaptation of means (and weights), Reynolds or fixed ratio, with a prior component that receives a tiny
    or zero responsibility mass: the adapted means still follow x -> a*x + b and the weights are unchanged (a
    component without evidence keeps the PRIOR mean, which follows the features too)."""
    from bob.learn.em import GMMMachine

    X, init, a, b, upd = case["X"], case["init"], case["a"], case["b"], case["upd"]
    init2 = tparams(init, a, b)
    X2 = a[None, :] * X + b[None, :]

    def run(ini, XX):
        g = GMMMachine(ini["C"], trainer="map", ubm=sut.make_gmm(ini), map_relevance_factor=case["relevance"],
                       map_alpha=case["alpha"], convergence_threshold=None, max_fitting_steps=case["K"],
                       update_means=True, update_variances=False, update_weights=upd[2])
        g.fit(XX)
        return g

    # exclusion: a responsibility mass within a factor 10 of the count floor (the switch "no evidence -> prior" is a
    # discontinuity; on which side a mass of about machine epsilon falls is a matter of rounding)
    for ini, XX in ((init, X), (init2, X2)):
        models, _ = ref.map_trajectory(XX, (ini["weights"], ini["means"], ini["variances"]), upd, case["K"], case["relevance"],
                                       case["alpha"], EPS, ini["floors"])
        for (w, mu, var) in models[:-1]:
            n = ref.gmm_stats(XX, w, mu, var)["n"]
            if ((n > 0.1 * EPS) & (n < 10 * EPS)).any():
                ctx.discard("responsibility mass at the count floor")
    g1, g2 = run(init, X), run(init2, X2)
    w1, m1, _ = sut.params_of(g1)
    w2, m2, _ = sut.params_of(g2)
    n0 = ref.gmm_stats(X, init["weights"], init["means"], init["variances"])["n"]
    tiny = bool(((n0 > 0) & (n0 < 0.1 * EPS)).any())
    ctx.note(tiny and case["map_mode"] == "fixed" and bool((np.abs(b) > 0).any()), "map:" + case["map_mode"],
             "starved:%s" % case["starved"], "tiny-positive-mass" if tiny else None, "zero-mass" if (n0 == 0).any() else None,
             "mode:" + case["mode"])
    kap = kappa(a, b, X)
    tol = 1e-8 * max(1.0, kap**2) * 10 ** (case["K"] - 1)
    sd = X.std(axis=0) + 1e-300
    ctx.close(w2, w1, "weights unchanged (MAP, starved component)", rtol=tol, atol=tol * 1e-3)
    ctx.close((m2 - b[None, :]) / a[None, :], m1, "means map to a*mu+b (MAP, starved component)", rtol=0,
              atol=tol * float(sd.max()) * 10 + tol * float(np.abs(m1).max()))


# ---------------------------------------------------------------------------- log-likelihood shift

def g_ll(draw):
    C, F = gen.dims(draw)
    scales = gen.feature_scales(draw, F)
    p = gen.gmm_params(draw, C, F, scales=scales, kmax=30.0)
    X, kind = gen.data_from(draw, p, gen.integer(draw, 1, 10))
    a, b, mode = affine(draw, F, scales, 1e4)
    return {"p": p, "X": X, "a": a, "b": b, "mode": mode, "scales": scales}


@REG.obligation("loglik_shifts_by_log_jacobian", g_ll, quick=400, thorough=8000)
def c_ll(ctx, case):
    """log-likelihoods shift by -sum(log|a|) under x -> a*x + b."""
    p, X, a, b = case["p"], case["X"], case["a"], case["b"]
    g1 = sut.make_gmm(p)
    g2 = sut.make_gmm(tparams(p, a, b))
    l1 = np.asarray(g1.log_likelihood(X))
    l2 = np.asarray(g2.log_likelihood(a[None, :] * X + b[None, :]))
    kap = float(np.max(np.abs(b) / (np.abs(a) * np.sqrt(p["variances"]).min(axis=0))))
    z = np.abs(X[:, None, :] - p["means"][None]) / np.sqrt(p["variances"])[None]
    zmax = float(z.max())
    ctx.note(nontrivial(a, b, case["scales"], p["means"]) and p["C"] >= 2, "mode:" + case["mode"])
    # rounding: the shifted data carry eps*kappa relative precision in (x-mu)/sigma, i.e. ~ z*eps*kappa in z^2/2
    atol = 64 * EPS * (1 + kap) * (1 + zmax) * (1 + zmax) * p["F"] + 1e-9
    ctx.close(l2, l1 - np.log(np.abs(a)).sum(), "log-likelihood under rescaling", rtol=1e-10, atol=atol)


# ---------------------------------------------------------------------------- linear scoring / ISV / JFA / i-vector

def g_fa(draw):
    c = gen.fa_case(draw, max_sessions=3)
    r = gen.rng(draw)
    fa = sut.fa_ref(c)
    c["z"] = r.normal(0, 1, fa.CF)
    c["y"] = r.normal(0, 1, fa.rV) if c["jfa"] else None
    F = c["ubm"]["F"]
    a, b, mode = affine(draw, F, c["ubm"]["scales"], 1e3)
    c.update(a=a, b=b, mode=mode, K=gen.integer(draw, 1, 3))
    R = gen.integer(draw, 1, 3)
    c["T"] = np.sqrt(c["ubm"]["variances"])[:, :, None] * r.normal(0, 1, (c["ubm"]["C"], F, R))
    c["sigma"] = c["ubm"]["variances"] * np.exp(r.uniform(-1, 1, c["ubm"]["variances"].shape))
    return c


def tfa(case):
    a, b = case["a"], case["b"]
    C, F = case["ubm"]["C"], case["ubm"]["F"]
    arow = np.tile(a, C)
    c2 = dict(case)
    c2["ubm"] = tparams(case["ubm"], a, b)
    c2["U"] = arow[:, None] * case["U"]
    c2["V"] = arow[:, None] * case["V"] if case["jfa"] else None
    c2["D"] = arow * case["D"]
    c2["sessions"] = [tstats(s, a, b) for s in case["sessions"]]
    c2["T"] = a[None, :, None] * case["T"]
    c2["sigma"] = a[None, :] ** 2 * case["sigma"]
    return c2


def _mags(case, model, off):
    """Natural magnitudes (sums of absolute terms, no cancellation) of the quantities compared below."""
    p = case["ubm"]
    C, F = p["C"], p["F"]
    fa = sut.fa_ref(case)
    sd = np.sqrt(p["variances"])
    sess = case["sessions"]
    res = sum(np.abs(s["sum_px"] - s["n"][:, None] * p["means"]) + s["n"][:, None] * sd for s in sess).ravel()
    # (model - ubm mean) is formed by subtraction inside linear_scoring: it carries an absolute rounding error of
    # eps*(|mean| + |b/a|), i.e. ~2e-6 in units of the 1e-9*(1+kappa) tolerance
    dm = np.abs(model - p["means"]) + 2e-6 * (np.abs(p["means"]) + sd)
    score = max(float((dm / p["variances"]
                       * (np.abs(s["sum_px"] - s["n"][:, None] * (p["means"] + off)) + s["n"][:, None] * sd)).sum())
                / max(s["t"], 1) for s in sess)
    x = float((np.abs(fa.U) / fa.sig[:, None] * res[:, None]).sum(axis=0).max())
    y = float((np.abs(fa.V) / fa.sig[:, None] * res[:, None]).sum(axis=0).max()) if fa.V is not None else 0.0
    z = float((np.abs(fa.D) / fa.sig * res).max())
    return {"score": score, "x": x, "y": y, "z": z}


@REG.obligation("scores_and_factors_invariant", g_fa, quick=350, thorough=7000)
def c_fa(ctx, case):
    """Linear scores, ISV/JFA scores, y, x, z and i-vectors are unchanged; the client mean follows the features."""
    from bob.learn.em import IVectorMachine, linear_scoring

    a, b = case["a"], case["b"]
    c2 = tfa(case)
    p, p2 = case["ubm"], c2["ubm"]
    C, F = p["C"], p["F"]
    sd = np.sqrt(p["variances"]).min(axis=0)
    kap = float(np.max(np.abs(b) / (np.abs(a) * sd)))
    ctx.note(nontrivial(a, b, p["scales"], p["means"]), "jfa" if case["jfa"] else "isv", "mode:" + case["mode"])
    tol = 1e-9 * (1 + kap)
    m1, m2 = sut.make_fa(case), sut.make_fa(c2)
    s1, s2 = sut.sessions_of(case), sut.sessions_of(c2)
    fa = sut.fa_ref(case)
    model = (fa.m + fa.D * case["z"]).reshape(C, F)
    off = (fa.U @ np.ones(fa.rU) * 0.1).reshape(C, F)
    mg = _mags(case, model, off)
    # plain linear scoring with a client model and an offset
    sc1 = np.asarray(linear_scoring(model[None], m1.ubm, s1, off, True))
    sc2 = np.asarray(linear_scoring((a[None, :] * model + b[None, :])[None], m2.ubm, s2, a[None, :] * off, True))
    ctx.close(sc2, sc1, "linear scores", rtol=1e-9, atol=tol * mg["score"])
    # latent channel factors and ISV/JFA scores
    x1, x2 = np.asarray(m1.estimate_x(s1), float), np.asarray(m2.estimate_x(s2), float)
    ctx.close(x2, x1, "channel factors x", rtol=1e-8, atol=tol * 10 * mg["x"])
    model_arg = (case["y"], case["z"]) if case["jfa"] else case["z"]
    f1, f2 = float(m1.score(model_arg, s1)), float(m2.score(model_arg, s2))
    client = fa.m + fa.D * case["z"] + (fa.V @ case["y"] if case["jfa"] else 0)
    pooled_n = np.repeat(sum(s["n"] for s in case["sessions"]), F)
    t_tot = max(sum(s["t"] for s in case["sessions"]), 1)
    ux_sens = float((np.abs(client - fa.m) / fa.sig * pooled_n * np.abs(fa.U).sum(axis=1)).sum()) / t_tot
    mg2 = _mags(case, client.reshape(C, F), (fa.U @ x1).reshape(C, F))
    ctx.close(f2, f1, "ISV/JFA score", rtol=1e-8, atol=tol * 10 * (mg2["score"] * len(case["sessions"]) + ux_sens * mg["x"]))
    # enrolment
    K = int(case["K"])
    m1.enroll_iterations = m2.enroll_iterations = K
    e1, e2 = m1.enroll(s1), m2.enroll(s2)
    grow = 10.0**K
    coup = 1 + float(np.abs(fa.U).sum()) + float(np.abs(fa.D).sum()) + (float(np.abs(fa.V).sum()) if fa.V is not None else 0)
    if case["jfa"]:
        y1, z1, y2, z2 = (np.ravel(e1[0]), np.ravel(e1[1]), np.ravel(e2[0]), np.ravel(e2[1]))
        ctx.close(y2, y1, "speaker factors y", rtol=1e-7, atol=tol * grow * (mg["y"] + mg["x"] + mg["z"]) * 10)
        mean1 = fa.m + fa.V @ y1 + fa.D * z1
        fa2 = sut.fa_ref(c2)
        mean2 = fa2.m + fa2.V @ y2 + fa2.D * z2
    else:
        z1, z2 = np.ravel(e1), np.ravel(e2)
        mean1 = fa.m + fa.D * z1
        fa2 = sut.fa_ref(c2)
        mean2 = fa2.m + fa2.D * z2
    zt = tol * grow * (mg["y"] + mg["x"] + mg["z"]) * 10
    ctx.close(z2, z1, "residual factors z", rtol=1e-7, atol=zt)
    arow, brow = np.tile(a, C), np.tile(b, C)
    sdrow = np.sqrt(p["variances"]).ravel()
    ctx.close((mean2 - brow) / arow, mean1, "enrolled client mean follows the features", rtol=1e-7,
              atol=zt * coup + tol * float((np.abs(fa.m) + sdrow).max()))
    # i-vectors
    iv = []
    for cc, ubm_m in ((case, m1.ubm), (c2, m2.ubm)):
        m = IVectorMachine(ubm_m, dim_t=cc["T"].shape[2])
        m.T, m.sigma = np.array(cc["T"]), np.array(cc["sigma"])
        iv.append(m)
    for st1, st2, sraw in zip(s1, s2, case["sessions"]):
        w1, w2 = np.asarray(iv[0].project(st1), float), np.asarray(iv[1].project(st2), float)
        res = np.abs(sraw["sum_px"] - sraw["n"][:, None] * p["means"]) + sraw["n"][:, None] * np.sqrt(p["variances"])
        wmag = float((np.abs(case["T"]) / case["sigma"][:, :, None] * res[:, :, None]).sum(axis=(0, 1)).max())
        ctx.close(w2, w1, "i-vector", rtol=1e-8, atol=tol * 10 * wmag)


# ---------------------------------------------------------------------------- k-means

def g_km(draw):
    c = gen.kmeans_data(draw, max_rows=30, min_rows=4)
    r = gen.rng(draw)
    X, k, scale = c["X"], c["k"], c["scale"]
    idx = r.choice(X.shape[0], size=k, replace=X.shape[0] < k)
    c["init"] = X[idx] + scale * r.normal(0, 0.3, (k, X.shape[1]))
    if k >= 2 and gen.choice(draw, [False, False, True]):
        # a start that leaves a cluster without rows in the first iteration(s): a centroid far outside the data, or two
        # identical centroids (the documented rule: an empty cluster keeps its centre, which moves with the data)
        j = gen.integer(draw, 0, k - 1)
        if gen.boolean(draw):
            c["init"][j] = X.mean(axis=0) + 40.0 * (np.abs(X - X.mean(axis=0)).max() + scale) * r.choice([-1.0, 1.0], X.shape[1])
        else:
            c["init"][j] = c["init"][(j + 1) % k]
        c["empty_start"] = True
    F = X.shape[1]
    Q = np.eye(F)
    for _ in range(gen.integer(draw, 0, 3) if F >= 2 else 0):
        i, j = r.choice(F, 2, replace=False)
        th = draw(gen.st.floats(-np.pi, np.pi))
        G = np.eye(F)
        G[i, i] = G[j, j] = np.cos(th)
        G[i, j], G[j, i] = -np.sin(th), np.sin(th)
        Q = Q @ G
    if gen.boolean(draw):
        Q[:, 0] = -Q[:, 0]  # a reflection
    c.update(Q=Q, s=float(10.0 ** draw(gen.st.floats(-3, 3))), t=scale * gen.choice(draw, [0.0, 1.0, -50.0, 1e3]) * np.ones(F),
             K=gen.integer(draw, 1, 5), thr=gen.choice(draw, [None, None, 1e-1, 1e-2, 0.3]))
    if c["thr"] is not None:
        c["K"] = 12
    # both trainings may read their rows from a Dask array; the rows may be stored cluster after cluster, so that a
    # block need not contain every cluster
    c["dask"] = gen.boolean(draw)
    c["chunks"] = gen.composition(draw, X.shape[0], max_parts=6)
    c["grouped"] = gen.boolean(draw)
    return c


@REG.obligation("kmeans_similarity_equivariant", g_km, quick=350, thorough=7000)
def c_km(ctx, case):
    """k-means centroids follow any rotation, uniform scaling and translation; the criterion scales by s^2."""
    from bob.learn.em import KMeansMachine

    X, k, Q, s, t, K = case["X"], case["k"], case["Q"], case["s"], case["t"], case["K"]
    cent = np.array(case["init"], float)
    if case.get("grouped"):
        # rows stored group after group (by their nearest initial centroid)
        X = X[np.argsort(np.argmin(ref.sq_dists(X, cent), axis=0), kind="stable")]

    def data(A):
        return sut.dask_rows(A, case["chunks"]) if case.get("dask") else A

    for _ in range(K):
        new, counts, d, margin, lab = ref.kmeans_step(X, cent)
        if margin < 1e-6:
            ctx.discard("near-tie")
        if (counts == 0).any():
            # only the discard rules need this trajectory: an empty cluster stays where it is (the relation under
            # test compares the code under test with itself on transformed data, whatever it does with such a cluster)
            new = np.where(counts[:, None] > 0, new, cent)
            ctx.event("a cluster without rows in some iteration")
        cent = new
    X2 = s * (X @ Q) + t[None, :]
    init2 = s * (case["init"] @ Q) + t[None, :]
    thr = case.get("thr")
    m1 = KMeansMachine(k, init_method=np.array(case["init"], copy=True), max_iter=K, convergence_threshold=thr).fit(data(X))
    if thr:
        # the relative-change stop test is a ratio of squared distances: invariant under s, Q, t (unlike the GMM's);
        # discard cases whose stop decision is not robust to a 1e-6 change of the threshold
        for f in (1 - 1e-6, 1 + 1e-6):
            mm = KMeansMachine(k, init_method=np.array(case["init"], copy=True), max_iter=K, convergence_threshold=thr * f).fit(X)
            if not np.array_equal(mm.centroids_, m1.centroids_):
                ctx.discard("stop decision within 1e-6 of the threshold")
        ctx.event("with-threshold")
    m2 = KMeansMachine(k, init_method=init2, max_iter=K, convergence_threshold=thr).fit(data(X2))
    spread = float(np.abs(X - X.mean(axis=0)).max()) + 1e-300
    kap = float(np.abs(t).max() / (s * spread)) if s > 0 else 0.0
    rotated = not np.allclose(Q, np.eye(len(Q)))
    ctx.note(k >= 2 and (rotated or kap > 10), "rotated" if rotated else "unrotated", "k=%d" % k,
             "dask" if case.get("dask") else "numpy", "grouped-rows" if case.get("grouped") else None)
    tol = 1e-9 * (1 + kap)
    back = ((m2.centroids_ - t[None, :]) / s) @ Q.T
    ctx.close(back, m1.centroids_, "centroids follow the similarity transform", rtol=0,
              atol=tol * (spread + float(np.abs(X).max())) * 10)
    ctx.close(m2.average_min_distance / s**2, m1.average_min_distance, "criterion scales by s^2", rtol=tol * 100 + 1e-9,
              atol=tol * 100 * spread**2 * (1 + kap))


def g_km_gmm(draw):
    c = gen.kmeans_data(draw, max_rows=24, min_rows=5)
    r = gen.rng(draw)
    X, k, scale = c["X"], c["k"], c["scale"]
    F = X.shape[1]
    if gen.boolean(draw):
        # an isolated row: a cluster of its own
        X = np.array(X, copy=True)
        X[0] = X.mean(axis=0) + 40.0 * scale * r.choice([-1.0, 1.0], F)
    idx = r.choice(X.shape[0], size=k, replace=X.shape[0] < k)
    init = X[idx] + scale * r.normal(0, 0.05, (k, F))
    if gen.boolean(draw):
        init[0] = X[0]
    return {"X": X, "k": k, "scale": scale, "kind": c["kind"], "init": init,
            "s": float(10.0 ** draw(gen.st.floats(-2, 2))) * float(gen.choice(draw, [1.0, 1.0, -1.0])),
            "t": scale * np.array([gen.choice(draw, [0.0, 1.0, -30.0, 500.0]) for _ in range(F)]),
            "iters": gen.integer(draw, 0, 3), "floor_rel": gen.choice(draw, [1e-8, 1e-3]),
            "dask": gen.boolean(draw), "chunks": gen.composition(draw, X.shape[0], max_parts=4)}


@REG.obligation("kmeans_initialised_gmm_equivariant", g_km_gmm, quick=250, thorough=5000)
def c_km_gmm(ctx, case):
    """A GMM that takes its starting point from k-means (no training step) follows x -> s*x + t (one scale for all
    features, since k-means itself is only equivariant under similarity transforms): means s*mu + t, variances
    s^2*var (floors scaled alike), weights unchanged - also when a cluster holds a single row."""
    from bob.learn.em import GMMMachine, KMeansMachine

    X, k, s, t = case["X"], int(case["k"]), float(case["s"]), np.asarray(case["t"], float)
    X2 = s * X + t[None, :]
    init2 = s * np.asarray(case["init"], float) + t[None, :]
    cent = np.array(case["init"], float)
    for _ in range(int(case["iters"]) + 1):
        new, counts, d, margin, lab = ref.kmeans_step(X, cent)
        if margin < 1e-6:
            ctx.discard("near-tie")
        if (counts == 0).any():
            ctx.discard("empty cluster")
        cent = new
    floor = float(case["floor_rel"]) * float(case["scale"]) ** 2

    def start(A, ini, fl):
        km = KMeansMachine(k, init_method=np.array(ini, copy=True), max_iter=int(case["iters"]), convergence_threshold=None)
        g = GMMMachine(k, k_means_trainer=km, max_fitting_steps=0, convergence_threshold=None, mean_var_update_threshold=fl)
        g.fit(sut.dask_rows(A, case["chunks"]) if case["dask"] else A)
        return sut.params_of(g)

    w1, m1, v1 = start(X, case["init"], floor)
    w2, m2, v2 = start(X2, init2, floor * s * s)
    spread = float(np.abs(X - X.mean(axis=0)).max()) + 1e-300
    kap = float(np.abs(t).max() / (abs(s) * spread))
    single = bool((np.bincount(lab, minlength=k) == 1).any())
    ctx.note(k >= 2 and bool(np.abs(t).max() > 0), "single-row-cluster" if single else None, "dask" if case["dask"] else "numpy",
             "negative-scale" if s < 0 else None)
    tol = 1e-9 * (1 + kap) ** 2
    ctx.close(w2, w1, "weights of the k-means-initialised GMM unchanged", rtol=1e-12, atol=1e-12)
    ctx.close((m2 - t[None, :]) / s, m1, "means of the k-means-initialised GMM follow the features", rtol=0,
              atol=tol * (spread + float(np.abs(X).max())))
    ctx.close(v2 / (s * s), v1, "variances of the k-means-initialised GMM scale with s^2", rtol=1e-6 + tol,
              atol=tol * spread * spread + 16 * X.shape[0] * EPS * float((X * X).max()) * (1 + kap) ** 2)


# ---------------------------------------------------------------------------- ISV / JFA training

def g_fa_train(draw):
    from vf.props import c09

    c = c09.g_train(draw)
    c["jfa"] = gen.boolean(draw)
    if not c["jfa"]:
        c["V"] = None
    c["init_from_seed"] = False
    c["em"] = gen.integer(draw, 1, 2)
    F = c["ubm"]["F"]
    a, b, mode = affine(draw, F, c["ubm"]["scales"], 1e2)
    c.update(a=a, b=b, mode=mode)
    return c


@REG.obligation("isv_jfa_training_equivariant", g_fa_train, quick=200, thorough=4000, shard_size=34)
def c_fa_train(ctx, case):
    """ISV/JFA training on re-coordinatised statistics (with U, V, D mapped accordingly) gives U, V, D rows scaled by a."""
    a, b = case["a"], case["b"]
    c2 = dict(case)
    C, F = case["ubm"]["C"], case["ubm"]["F"]
    arow = np.tile(a, C)
    c2["ubm"] = tparams(case["ubm"], a, b)
    c2["U"] = arow[:, None] * case["U"]
    c2["V"] = arow[:, None] * case["V"] if case["jfa"] else None
    c2["D"] = arow * case["D"]
    c2["sessions"] = [tstats(s, a, b) for s in case["sessions"]]
    y = np.asarray(case["y"])
    m1 = sut.make_fa(case, em_iterations=case["em"])
    m2 = sut.make_fa(c2, em_iterations=case["em"])
    m1.fit(sut.sessions_of(case), y)
    m2.fit(sut.sessions_of(c2), y)
    sd = np.sqrt(case["ubm"]["variances"]).min(axis=0)
    kap = float(np.max(np.abs(b) / (np.abs(a) * sd)))
    ctx.note(nontrivial(a, b, case["ubm"]["scales"], case["ubm"]["means"]), "jfa" if case["jfa"] else "isv", "mode:" + case["mode"])
    tol = 1e-7 * (1 + kap) * 10 ** (case["em"] - 1)
    for name in ("U", "D") + (("V",) if case["jfa"] else ()):
        g1, g2 = np.asarray(getattr(m1, name), float), np.asarray(getattr(m2, name), float)
        back = g2 / (arow[:, None] if g2.ndim == 2 else arow)
        ctx.close(back, g1, "%s rows scale with the features" % name, rtol=tol, atol=tol * (np.abs(g1).max() + 1e-300))
