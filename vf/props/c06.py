"""C06 — k-means training descends the true distortion and stops by its stated rule."""
import numpy as np

from vf import gen, guard, ref, sut
from vf.runner import Registry

REG = Registry(
    "C06",
    rule=(
        "Hypothesis draws rows (blobs / uniform / with duplicates; scale 1e-3..1e3, offsets), k in 1..5, "
        "initial centroids as an explicit array or seeded 'random' / 'k-means||', threshold and cap, NumPy "
        "or row-chunked Dask input. The trajectory centroids_0..K comes from fit with max_iter=0..K and no "
        "threshold. Oracles: centroids_k == arithmetic mean of the rows nearest to centroids_{k-1} "
        "(explicit differences); the independent distortion never increases while no cluster is empty; the "
        "reported criterion after k iterations == mean squared distance to centroids_{k-1} == "
        "transform(X).min(0).mean(); fit(threshold, cap) stops at the predicted iteration. Non-trivial: "
        ">=2 clusters and some row changes cluster along the trajectory."
    ),
    assumptions=[
        "'k-means++' excluded: dask-ml calls scikit-learn's _kmeans_plusplus with an outdated signature in this environment (baseline always-fail tests)",
        "cases with a best/second-best distance margin below 1e-6 relative are discarded (ties)",
        "steps with an empty cluster are exempt from the descent claim (the statement conditions on non-empty clusters)",
    ],
)


def km_machine(case, cap, thr=None):
    """The settings arrive through the constructor, or (scikit-learn estimator API) through set_params / attribute
    assignment on a machine built with other settings, or the machine is a clone of a configured one."""
    import zlib

    from bob.learn.em import KMeansMachine
    from sklearn.base import clone

    ini = case["init"]
    method = np.array(ini["init"], copy=True) if ini["method"] == "array" else ini["method"]
    route = zlib.crc32(repr((cap, thr, int(ini["seed"]))).encode()) % 5
    if route in (0, 4):
        return KMeansMachine(case["k"], init_method=method, convergence_threshold=thr, max_iter=cap,
                             random_state=int(ini["seed"]))
    if route == 3:
        return clone(KMeansMachine(case["k"], init_method=method, convergence_threshold=thr, max_iter=cap,
                                   random_state=int(ini["seed"])))
    m = KMeansMachine(case["k"], init_method=method, convergence_threshold=None if thr is not None else 0.5,
                      max_iter=1 if cap != 1 else 7, random_state=int(ini["seed"]) + 1)
    if route == 1:
        m.set_params(convergence_threshold=thr, max_iter=cap, random_state=int(ini["seed"]))
    else:
        m.convergence_threshold, m.max_iter, m.random_state = thr, cap, int(ini["seed"])
    return m


def data_arg(case):
    if case.get("dask"):
        return sut.dask_rows(case["X"], case["chunks"])
    return sut.present(case["X"], case.get("how", "plain"))


def g_traj(draw):
    slow = gen.choice(draw, [False, False, True])
    c = gen.kmeans_data(draw, max_rows=40 if gen.big() else 24, slow=slow)
    c["init"] = gen.kmeans_init(draw, c["X"], c["k"], c["scale"], corner=slow)
    c["K"] = gen.integer(draw, 1, 10 if slow else 6)
    c["how"] = gen.presentation(draw)
    if c["how"] == "int":
        if c["scale"] < 1:
            c["how"] = "plain"
        else:
            c["X"] = gen.integral(c["X"])
    c["dask"] = gen.boolean(draw)
    c["isolate"], c["order_seed"] = gen.boolean(draw), gen.integer(draw, 0, 999)
    c["chunks"] = gen.composition(draw, c["X"].shape[0], max_parts=6)
    return c


def kfit(m, case):
    from vf import sched

    if case.get("dask"):
        with sched.owned("random", int(case.get("order_seed", 0)), bool(case.get("isolate", False))):
            return m.fit(data_arg(case))
    return m.fit(data_arg(case))


def impl_trajectory(case, K):
    cents, crit = [], [None]
    for k in range(K + 1):
        m = km_machine(case, k)
        kfit(m, case)
        cents.append(np.array(m.centroids_, dtype=float))
        if k >= 1:
            crit.append(float(m.average_min_distance))
    return cents, crit


@REG.obligation("lloyd_step_and_descent", g_traj, quick=350, thorough=7000)
def c_traj(ctx, case):
    """Every centroid is the mean of the rows nearest to its predecessor; the true distortion descends;
    the reported criterion is the mean squared distance for the centroids entering the last iteration."""
    from bob.learn.em import KMeansMachine

    X, K, k = case["X"], case["K"], case["k"]
    cents, crit = impl_trajectory(case, K)
    ctx.check(cents[0].shape == (k, X.shape[1]), "centroids shape %s" % (cents[0].shape,), "shape")
    ctx.finite(cents[0], "initial centroids")
    moved = False
    empty_seen = False
    labs = []
    dists = [ref.distortion(X, cents[0])]
    sc = float(np.abs(X).max())
    spread = float(np.abs(X - X.mean(axis=0)).max()) + 1e-300
    for j in range(1, K + 1):
        new, counts, d_prev, margin, lab = ref.kmeans_step(X, cents[j - 1])
        if margin < 1e-6:
            # exactly tied samples may go to any ONE of their nearest centroids: the result must be the set of
            # means of SOME consistent assignment (a tied sample summed into two clusters is none)
            cands, n_tied, ambiguous = ref.kmeans_tie_candidates(X, cents[j - 1])
            if ambiguous or not cands:
                ctx.discard("near-tie between two centroids")
            ctx.event("exact-tie steps")
            ok = False
            for cand, clab in cands:
                ne_c = ~np.isnan(cand[:, 0])
                if np.allclose(cents[j][ne_c], cand[ne_c], rtol=1e-9, atol=1e-12 * sc):
                    ok, new, lab = True, cand, clab
                    counts = np.array([(clab == i).sum() for i in range(k)])
                    break
            if not ok:
                ctx.fail("iteration %d: centroids %s are not the cluster means of ANY assignment of the %d exactly tied "
                         "sample(s) to one of their nearest centroids" % (j, np.round(cents[j], 6).tolist(), n_tied),
                         "value:centroid = mean of its nearest rows (ties)")
        labs.append(lab)
        if (counts == 0).any():
            empty_seen = True
        ne = counts > 0
        ctx.close(cents[j][ne], new[ne], "centroid = mean of its nearest rows (iteration %d)" % j,
                  rtol=1e-9, atol=1e-12 * sc)
        ctx.finite(cents[j], "centroids after iteration %d" % j)
        # reported criterion after j iterations
        ctx.close(crit[j], d_prev, "average_min_distance after %d iteration(s)" % j, rtol=1e-9,
                  atol=64 * np.finfo(float).eps * sc * sc)
        holder = KMeansMachine(k)
        holder.centroids_ = cents[j - 1]
        tr = np.asarray(holder.transform(X))
        ctx.close(crit[j], tr.min(axis=0).mean(), "criterion == transform(X).min(0).mean()", rtol=1e-9,
                  atol=64 * np.finfo(float).eps * sc * sc)
        dists.append(ref.distortion(X, cents[j]))
        if not empty_seen:
            tol = 1e-9 * dists[j - 1] + 1e-12 * spread * spread
            if dists[j] > dists[j - 1] + tol:
                ctx.fail("distortion rose from %.12g to %.12g at iteration %d" % (dists[j - 1], dists[j], j),
                         "distortion-increase")
    for a, b in zip(labs, labs[1:]):
        if (a != b).any():
            moved = True
    ctx.note(k >= 2 and moved, "init:" + case["init"]["method"], "dask" if case["dask"] else "numpy",
             "empty-cluster" if empty_seen else None, "kind:" + case["kind"])


def g_far(draw):
    c = gen.kmeans_data(draw, max_rows=60 if gen.big() else 36, min_rows=6)
    if c["kind"] == "grid":
        c["kind"] = "grid-shifted"
    X = c["X"]
    spread = float(np.abs(X - X.mean(axis=0)).max()) + 1e-300
    F = X.shape[1]
    r = gen.rng(draw)
    # the whole data set sits 1e3 .. 1e8 spreads away from the origin (per feature, either sign)
    far = spread * 10.0 ** gen.choice(draw, [3, 4, 5, 6, 7, 8]) * r.choice([-1.0, 1.0], F) * r.uniform(0.5, 1.0, F)
    if F >= 2 and gen.boolean(draw):
        far[int(r.integers(0, F))] = 0.0  # one feature stays near the origin
    c["X"] = X + far[None, :]
    idx = r.choice(X.shape[0], size=c["k"], replace=X.shape[0] < c["k"])
    c["init"] = {"method": "array", "init": c["X"][idx] + c["scale"] * r.normal(0, 0.3, (c["k"], F)), "seed": 0}
    c["K"] = gen.integer(draw, 1, 4)
    c["how"] = gen.choice(draw, ["plain", "plain", "fortran", "strided", "list"])
    c["dask"] = gen.boolean(draw)
    c["isolate"], c["order_seed"] = gen.boolean(draw), gen.integer(draw, 0, 999)
    c["chunks"] = gen.composition(draw, X.shape[0], max_parts=6)
    return c


@REG.obligation("far_from_the_origin", g_far, quick=250, thorough=5000)
def c_far(ctx, case):
    """The same statements for data whose distance from the origin is 1e3..1e8 times their spread (squared norms
    would cancel; differences do not): centroid = mean of its nearest rows, reported criterion = mean squared
    distance, descent.  Tolerances follow the rounding of differences (eps * offset * spread), not of squares."""
    X, K, k = case["X"], case["K"], case["k"]
    n, F = X.shape
    cents, crit = impl_trajectory(case, K)
    eps = np.finfo(float).eps
    sc = float(np.abs(X).max())
    c0 = X.mean(axis=0)
    spread = float(np.abs(X - c0).max()) + 1e-300
    d_prev_true = None
    for j in range(1, K + 1):
        new, counts, d_prev, margin, lab = ref.kmeans_step(X, cents[j - 1])
        if margin < 1e-3:
            ctx.discard("assignment not decided by a clear margin")
        if (counts == 0).any():
            ctx.discard("empty cluster")
        ctx.close(cents[j] - c0, new - c0, "centroid = mean of its nearest rows, relative to the data mean (iteration %d)" % j,
                  rtol=1e-9, atol=8 * n * eps * sc)
        ctx.close(crit[j], d_prev, "average_min_distance after %d iteration(s)" % j, rtol=1e-9,
                  atol=64 * F * eps * sc * spread)
        if d_prev_true is not None and d_prev > d_prev_true * (1 + 1e-9) + 64 * F * eps * sc * spread:
            ctx.fail("distortion rose from %.12g to %.12g at iteration %d" % (d_prev_true, d_prev, j - 1),
                     "distortion-increase")
        d_prev_true = d_prev
    ctx.stat_max("offset / spread", sc / spread)
    ctx.note(k >= 2 and sc / spread >= 1e5, "offset/spread:1e%d" % int(np.floor(np.log10(sc / spread))),
             "dask" if case["dask"] else "numpy", "kind:" + case["kind"])


def g_stop(draw):
    slow = gen.choice(draw, [False, True, False])
    c = gen.kmeans_data(draw, max_rows=80 if gen.big() else 50, min_rows=12, slow=slow)
    c["init"] = gen.kmeans_init(draw, c["X"], c["k"], c["scale"], corner=slow)
    c["thr"] = gen.choice(draw, [1e-1, 0.3, 3e-2, 0.5, 1e-2, 1e-3, 1e-5, 0.0, None])
    c["cap"] = gen.choice(draw, [12, None, 8, 6, 4, 3, 2, 1, 0])
    if c["thr"] is None and c["cap"] is None:
        c["cap"] = 3
    c["dask"] = gen.boolean(draw)
    c["isolate"], c["order_seed"] = gen.boolean(draw), gen.integer(draw, 0, 999)
    c["chunks"] = gen.composition(draw, c["X"].shape[0], max_parts=6)
    return c


@REG.obligation("stop_rule", g_stop, quick=800, thorough=12000)
def c_stop(ctx, case):
    """Training stops at the cap or at the first iteration >= 2 whose relative criterion change is <= threshold."""
    X, k, thr, cap = case["X"], case["k"], case["thr"], case["cap"]
    m0 = km_machine(case, 0)
    kfit(m0, case)
    cent = np.array(m0.centroids_, dtype=float)
    Kmax = cap if cap is not None else 30
    cents, D = [cent], [None]
    for j in range(1, Kmax + 2):
        new, counts, d_prev, margin, lab = ref.kmeans_step(X, cents[-1])
        if margin < 1e-6:
            ctx.discard("near-tie between two centroids")
        if (counts == 0).any():
            ctx.discard("empty cluster")
        if d_prev == 0:
            ctx.discard("zero distortion (relative change undefined)")
        cents.append(new)
        D.append(d_prev)
    kstar, closest = ref.stop_iteration(D[: Kmax + 1], thr, cap)
    if kstar is None:
        ctx.discard("no stop within 30 iterations and no cap")
    if closest < 1e-6 and thr:
        ctx.discard("convergence value within 1e-6 of the threshold")
    m = km_machine(case, cap, thr)
    with guard.budget(kstar + 2):  # the rule stops at k*: a fit that is still iterating after k*+2 is reported, not waited for
        kfit(m, case)
    got = np.array(m.centroids_, dtype=float)
    sc = float(np.abs(X).max())
    spread = float(np.abs(X - X.mean(axis=0)).max()) + 1e-300

    def dist(a, b):
        return float(np.abs(a - b).max() / spread)

    # a stop one iteration early shows in the centroids, one iteration late in the reported criterion
    # (the distortion of the centroids entering the last iteration), provided iteration k* still moved
    decisive = kstar >= 1 and dist(cents[kstar], cents[kstar - 1]) > 1e-6
    before_cap = thr is not None and (cap is None or kstar < cap)
    ctx.note(k >= 2 and decisive and before_cap, "stop-before-cap" if before_cap else "stop-at-cap",
             "decisive" if decisive else "neighbours-equal", "dask" if case["dask"] else "numpy",
             "init:" + case["init"]["method"])
    if dist(got, cents[kstar]) > 1e-9:
        best = min(range(len(cents)), key=lambda j: dist(got, cents[j]))
        ctx.fail("fit(threshold=%r, cap=%r) returned the centroids of iteration %d instead of iteration %d; "
                 "criterion per iteration %s" % (thr, cap, best, kstar, ["%.8g" % v for v in D[1:kstar + 2]]),
                 "wrong-iteration-count")
    if kstar >= 1:
        ctx.close(float(m.average_min_distance), D[kstar], "reported criterion at the stop iteration",
                  rtol=1e-9, atol=64 * np.finfo(float).eps * sc * sc)


def g_refit(draw):
    a = gen.kmeans_data(draw, max_rows=24, min_rows=5)
    b = gen.kmeans_data(draw, max_rows=24, min_rows=5, maxF=1)
    r = gen.rng(draw)
    F = a["X"].shape[1]
    XB = a["scale"] * r.normal(2.0, 2.0, (gen.integer(draw, max(a["k"], 4), 20), F))
    c = {"X": a["X"], "XB": XB, "k": a["k"], "scale": a["scale"], "kind": a["kind"]}
    c["init"] = {"method": gen.choice(draw, ["random", "k-means||"]), "init": None, "seed": gen.integer(draw, 0, 999)}
    c["thr"] = gen.choice(draw, [None, 1e-2, 1e-1])
    c["cap"] = gen.choice(draw, [1, 2, 3, 5, 8])
    c["dask_first"] = gen.boolean(draw)
    # a cap sweep on one estimator object: the first training used another cap on the SAME data
    c["same_data"] = gen.choice(draw, [False, True, True])
    c["first_cap"] = gen.choice(draw, [1, 1, 2, 3])
    c["copied"] = gen.choice(draw, ["no", "no", "deepcopy", "pickle"])
    if c["same_data"]:
        c["XB"] = c["X"]
    return c


@REG.obligation("refit_equals_fresh_machine", g_refit, quick=120, thorough=2500, shard_size=30)
def c_refit(ctx, case):
    """A machine that was already trained and is trained again on other data gives what a fresh machine gives
    (same centroids, same criterion, hence the same number of iterations)."""
    import copy
    import pickle

    m = km_machine(case, case.get("first_cap", case["cap"]), case["thr"])
    first = sut.dask_rows(case["X"], [case["X"].shape[0]]) if case["dask_first"] else case["X"]
    m.fit(first)
    m.predict(case["X"])
    if case.get("copied") == "deepcopy":
        m = copy.deepcopy(m)
    elif case.get("copied") == "pickle":
        m = pickle.loads(pickle.dumps(m))
    m.max_iter = case["cap"]
    m.fit(case["XB"])
    fresh = km_machine(case, case["cap"], case["thr"]).fit(case["XB"])
    ctx.note(case["k"] >= 2, "init:" + case["init"]["method"], "same-data" if case.get("same_data") else "other-data")
    if not np.isfinite(fresh.centroids_).all():
        ctx.discard("empty cluster")
    ctx.close(m.centroids_, fresh.centroids_, "centroids after training again vs fresh machine", rtol=0, atol=0)
    ctx.close(m.average_min_distance, fresh.average_min_distance, "criterion after training again vs fresh machine", rtol=0, atol=0)


def g_rows(draw):
    c = gen.big_rows_case(draw, many_clusters=True)
    c["K"] = gen.integer(draw, 1, 3) if c["k"] < 32 else 1
    c["dask"] = gen.boolean(draw)
    c["isolate"], c["order_seed"] = gen.boolean(draw), gen.integer(draw, 0, 999)
    return c


@REG.obligation("many_rows", g_rows, quick=12, thorough=200, shard_size=4)
def c_rows(ctx, case):
    """Thousands of rows (1e3 .. 7e4, in memory or in a few large Dask chunks, so that any internal batching of a
    block is exercised): centroids after each iteration are the means of the rows nearest to their predecessors and
    the reported criterion is the mean squared distance for the centroids entering the last iteration."""
    from bob.learn.em import KMeansMachine

    from vf import sched

    X, init = gen.big_rows(case)
    n, k = X.shape[0], init.shape[0]
    sc = float(np.abs(X).max())
    spread = float(np.abs(X - X.mean(axis=0)).max()) + 1e-300
    ctx.note(max(case["chunks"]) > 4096 or not case["dask"], "n>%d" % (10 ** int(np.log10(n))),
             "dask" if case["dask"] else "numpy")
    cur = np.array(init, dtype=float)
    for j in range(1, int(case["K"]) + 1):
        m = KMeansMachine(k, init_method=np.array(init, copy=True), max_iter=j, convergence_threshold=None)
        if case["dask"]:
            with sched.owned("random", int(case["order_seed"]), bool(case["isolate"])):
                m.fit(sut.dask_rows(X, case["chunks"]))
        else:
            m.fit(X)
        D = ((X[None, :, :] - cur[:, None, :]) ** 2).sum(axis=2)
        srt = np.sort(D, axis=0)
        if ((srt[1] - srt[0]) / np.maximum(srt[1], 1e-300)).min() < 1e-9:
            ctx.discard("near-tie")
        lab = D.argmin(axis=0)
        if len(np.unique(lab)) < k:
            ctx.discard("empty cluster")
        new = np.stack([X[lab == i].mean(axis=0) for i in range(k)])
        ctx.close(m.centroids_, new, "centroid = mean of its nearest rows (iteration %d, many rows)" % j, rtol=1e-9,
                  atol=1e-10 * spread)
        ctx.close(m.average_min_distance, D.min(axis=0).mean(), "average_min_distance after %d iteration(s), many rows" % j,
                  rtol=1e-9, atol=64 * np.finfo(float).eps * sc * sc)
        cur = new
