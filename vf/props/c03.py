"""C03 — GMM ML training never decreases the likelihood and stops by its stated rule."""
import numpy as np

from vf import gen, guard, ref, sut
from vf.runner import Registry

EPS = np.finfo(float).eps

REG = Registry(
    "C03",
    rule=(
        "Hypothesis draws training rows from a 'true' mixture, a different initial model placed near the "
        "data, one of the 8 update-switch combinations, strictly positive floors (default/scalar/vector/"
        "matrix), threshold in {None,0,1e-8..1e-1}, cap in {None,0..12}, NumPy or row-chunked Dask input. "
        "Oracles: (a) one fit step == reference Bishop M-step on reference statistics; (b) along the "
        "reference EM trajectory the mean log-likelihood (SciPy) never decreases at floor-free steps and "
        "fit(cap=k) reproduces trajectory model k, also by k resumed single steps; (c) fit(thr,cap) returns "
        "the trajectory model at the predicted stop iteration k* = first k>=2 with relative change <= thr. "
        "Non-trivial: likelihood strictly increases over >=2 steps (and for (c) the stop is before the cap)."
    ),
    assumptions=[
        "variance floors strictly positive when training (floor 0 + collapse -> NaN is the documented consequence)",
        "steps at which a variance floor or the count floor is active are exempt from monotonicity (the statement says so) but still compared with the reference",
        "cases whose convergence value is within 1e-6 relative of the threshold are discarded (stop iteration undetermined under re-association)",
    ],
)


def _route(*key):
    """How the machine of a case gets its settings: a deterministic function of the settings themselves."""
    import zlib

    return zlib.crc32(repr(key).encode()) % 4


def machine(init, upd, thr, cap, count_floor=EPS, **kw):
    """An ML machine holding `init` with the given settings.  The settings arrive either through the constructor, or
    (scikit-learn estimator API) through set_params / attribute assignment on a machine that was built with other
    settings — including one that was built as a MAP machine and is switched to ML training."""
    want = dict(
        trainer="ml",
        convergence_threshold=thr,
        max_fitting_steps=cap,
        update_means=bool(upd[0]),
        update_variances=bool(upd[1]),
        update_weights=bool(upd[2]),
        mean_var_update_threshold=count_floor,
    )
    route = _route(thr, cap, tuple(bool(u) for u in upd)) if not kw else 0
    if route in (0, 3):
        return sut.make_gmm(init, **want, **kw)
    other = dict(
        convergence_threshold=0.5,
        max_fitting_steps=1 if cap != 1 else 3,
        update_means=not want["update_means"],
        update_variances=not want["update_variances"],
        update_weights=not want["update_weights"],
        mean_var_update_threshold=1e-3,
    )
    if route == 1:
        g = sut.make_gmm(init, trainer="ml", **other)
        g.set_params(**want)
    else:
        g = sut.make_gmm(init, trainer="map", ubm=sut.make_gmm(init), **other)
        for k, v in want.items():
            setattr(g, k, v)
    return g


def fit(machine_, case):
    """fit on the case's data; Dask input runs on the harness-owned executor (generated task order, and when the
    case says so every task and result round-tripped through cloudpickle as on a worker process)."""
    from vf import sched

    if case.get("dask"):
        with sched.owned("random", int(case.get("order_seed", 0)), bool(case.get("isolate", False))):
            return machine_.fit(data_arg(case))
    return machine_.fit(data_arg(case))


def zero_rows(draw, c):
    """Some training rows sit exactly at the origin (silent / zero-padded frames) and form blocks of their own."""
    k = gen.choice(draw, [0, 0, 1, 2])
    n = c["X"].shape[0]
    if k and n > k + 1:
        c["X"] = np.array(c["X"], copy=True)
        c["X"][:k] = 0.0
        c["chunks"] = [1] * k + gen.composition(draw, n - k, max_parts=5)
        c["zero_rows"] = k


def data_arg(case):
    X = case["X"]
    if case.get("dask"):
        return sut.dask_rows(X, case["chunks"], unknown=bool(case.get("unknown_chunks")))
    how = case.get("how", "plain")
    return sut.present(X, how)


def model_tol(ctx, got, want, X, what, rtol):
    w, mu, var = got
    sc = float(np.abs(X).max()) + 1e-300
    ctx.close(w, want[0], what + " weights", rtol=rtol, atol=rtol * 1e-3)
    ctx.close(mu, want[1], what + " means", rtol=rtol, atol=rtol * sc * 1e-3)
    ctx.close(var, want[2], what + " variances", rtol=rtol, atol=rtol * sc * sc * 1e-6)


def g_step(draw):
    c = gen.gmm_training_case(draw)
    c["dask"] = gen.boolean(draw)
    c["isolate"], c["order_seed"] = gen.boolean(draw), gen.integer(draw, 0, 999)
    c["chunks"] = gen.composition(draw, c["X"].shape[0])
    zero_rows(draw, c)
    c["count_floor"] = gen.choice(draw, [EPS, EPS, 1e-6])
    c["how"] = gen.presentation_for(draw, c)
    c["unknown_chunks"] = c["dask"] and gen.choice(draw, [False, False, True])
    return c


@REG.obligation("mstep_formula", g_step, quick=600, thorough=12000)
def c_step(ctx, case):
    """One EM iteration equals the reference M-step (Bishop 9.24-9.26; conditional variance when means are frozen)."""
    X, init, upd = case["X"], case["init"], case["upd"]
    g = machine(init, upd, None, 1, case["count_floor"])
    fit(g, case)
    s = ref.gmm_stats(X, init["weights"], init["means"], init["variances"])
    want = ref.ml_mstep(s["n"], s["sum_px"], s["sum_pxx"], X.shape[0], init["weights"], init["means"],
                        init["variances"], upd[0], upd[1], upd[2], case["count_floor"], init["floors"])
    starved = bool((s["n"] < 1e-6).any())
    if upd[1] and starved:
        # E[x^2]-mean^2 for a component with (almost) no mass is 0/0-conditioned: not a formula check
        ctx.discard("starved component with variance update")
    ctx.note(init["C"] >= 2 and any(upd), "upd:%d%d%d" % tuple(int(u) for u in upd),
             "dask" if case["dask"] else "numpy", "frozen-means+var" if (upd[1] and not upd[0]) else None)
    # cancellation bound of the computational formula E[x^2]-2mu E[x]+mu^2
    sc = float(np.abs(X).max())
    w, mu, var = sut.params_of(g)
    ctx.close(w, want[0], "weights after 1 step", rtol=1e-9, atol=1e-12)
    ctx.close(mu, want[1], "means after 1 step", rtol=1e-9, atol=1e-12 * sc)
    ctx.close(var, want[2], "variances after 1 step", rtol=1e-8, atol=64 * X.shape[0] * EPS * sc * sc)
    if not any(upd):
        ctx.close(mu, init["means"], "means with all switches off", rtol=0, atol=0)
        ctx.close(var, init["variances"], "variances with all switches off", rtol=0, atol=0)
        ctx.close(w, init["weights"], "weights with all switches off", rtol=0, atol=0)


def g_traj(draw):
    c = gen.gmm_training_case(draw, max_rows=40 if gen.big() else 24)
    c["K"] = gen.integer(draw, 2, 8 if gen.big() else 6)
    c["how"] = gen.presentation_for(draw, c)
    c["dask"] = gen.boolean(draw)
    c["unknown_chunks"] = c["dask"] and gen.choice(draw, [False, False, True])
    c["isolate"], c["order_seed"] = gen.boolean(draw), gen.integer(draw, 0, 999)
    c["chunks"] = gen.composition(draw, c["X"].shape[0], max_parts=6)
    zero_rows(draw, c)
    return c


@REG.obligation("monotone_trajectory", g_traj, quick=300, thorough=6000)
def c_traj(ctx, case):
    """The average training log-likelihood (computed independently) never decreases along fit's own
    trajectory, and fit(cap=k) equals k resumed single steps and the reference trajectory."""
    X, init, upd, K = case["X"], case["init"], case["upd"], case["K"]
    models, L, active = ref.ml_trajectory(X, (init["weights"], init["means"], init["variances"]), upd, K + 1,
                                          EPS, init["floors"])
    if any(active[1:K + 1]):
        ctx.event("floor-active")
    # implementation trajectory: K resumed single steps
    g = machine(init, upd, None, 1)
    Limpl = []
    traj = []
    for k in range(1, K + 1):
        cur = sut.params_of(g)
        Limpl.append(float(ref.gmm_logpdf(X, *cur).mean()))
        fit(g, case)
        traj.append(sut.params_of(g))
    Limpl.append(float(ref.gmm_logpdf(X, *sut.params_of(g)).mean()))
    inc = [Limpl[k + 1] - Limpl[k] for k in range(K)]
    strictly = sum(1 for d in inc if d > 1e-9 * (1 + abs(Limpl[0])))
    ctx.note(strictly >= 2 and init["C"] >= 2, "upd:%d%d%d" % tuple(int(u) for u in upd),
             ("dask-isolated" if case.get("isolate") else "dask") if case["dask"] else "numpy", "floor-free" if not any(active[1:K + 1]) else "floor-active")
    for k in range(K):
        if active[k + 1]:
            continue
        tol = 1e-9 * (1 + abs(Limpl[k]))
        ctx.stat_max("largest decrease / (1+|L|)", max(0.0, -inc[k]) / (1 + abs(Limpl[k])))
        if inc[k] < -tol:
            ctx.fail("log-likelihood fell from %.12g to %.12g at iteration %d (switches m,v,w=%s)"
                     % (Limpl[k], Limpl[k + 1], k + 1, upd), "likelihood-decrease")
    if any(active[1:K + 1]):
        return
    # one fit with cap K == K resumed steps == reference trajectory
    g2 = machine(init, upd, None, K)
    fit(g2, case)
    model_tol(ctx, sut.params_of(g2), traj[-1], X, "fit(cap=K) vs K resumed steps", 1e-9)
    model_tol(ctx, sut.params_of(g2), models[K], X, "fit(cap=K) vs reference trajectory", 1e-6)


def g_stop(draw):
    c = gen.gmm_training_case(draw, max_rows=40 if gen.big() else 24, min_rows=4)
    c["thr"] = gen.choice(draw, [1e-2, 1e-3, 1e-1, 1e-4, 3e-2, 1e-5, 1e-6, 1e-8, 0.0, None, 1e-10, 1e-12, 1e-8])
    c["cap"] = gen.choice(draw, [12, None, 10, 8, 6, 5, 4, 3, 2, 1, 0, 30, 30])
    if c["thr"] is None and c["cap"] is None:
        c["cap"] = 3
    if c["cap"] is None and c["thr"] < 1e-6:
        c["thr"] = 1e-4
    c["dask"] = gen.boolean(draw)
    c["isolate"], c["order_seed"] = gen.boolean(draw), gen.integer(draw, 0, 999)
    c["chunks"] = gen.composition(draw, c["X"].shape[0], max_parts=6)
    zero_rows(draw, c)
    # a Dask array whose shape and chunk sizes are unknown until computed (lazy boolean selection of the rows)
    c["unknown_chunks"] = c["dask"] and gen.choice(draw, [False, False, True])
    return c


@REG.obligation("stop_rule", g_stop, quick=400, thorough=8000)
def c_stop(ctx, case):
    """fit(threshold, cap) performs exactly min(k*, cap) iterations, k* = first iteration >= 2 whose
    relative change of the average log-likelihood is <= threshold; iteration 1 never stops."""
    X, init, upd, thr, cap = case["X"], case["init"], case["upd"], case["thr"], case["cap"]
    Kmax = cap if cap is not None else 40
    models, L, active = ref.ml_trajectory(X, (init["weights"], init["means"], init["variances"]), upd,
                                          Kmax + 1, EPS, init["floors"])
    kstar, closest = ref.stop_iteration(L[: Kmax + 1], thr, cap)
    if kstar is None:
        ctx.discard("no stop within 40 iterations and no cap")
    if closest < 1e-6 and not (thr == 0.0 and closest >= 1e-11):
        ctx.discard("convergence value within 1e-6 of the threshold")
    if any(active[1:kstar + 2]):
        ctx.discard("floor active (trajectory ill-conditioned)")
    g = machine(init, upd, thr, cap)
    with guard.budget(kstar + 2):  # the rule stops at k*: a fit that is still iterating after k*+2 is reported, not waited for
        fit(g, case)
        n_steps = guard.steps()
    got = sut.params_of(g)
    # the number of iterations performed is decided exactly whenever no convergence value comes near the threshold
    # (rounding moves a convergence value by ~1e-15 absolute; an exact 0 is a coin toss between summation orders)
    convs = [abs((L[k - 1] - L[k]) / L[k - 1]) if L[k - 1] != 0 else np.inf for k in range(2, kstar + 1)]
    sure = thr is None or all(abs(cv - thr) > 1e-6 * thr + 1e-12 for cv in convs)
    if sure:
        ctx.event("iteration count decided exactly")
        ctx.check(n_steps == kstar, "fit(threshold=%r, cap=%r) performed %d iterations, the stop rule says %d; convergence "
                  "values %s" % (thr, cap, n_steps, kstar, ["%.3g" % cv for cv in convs[-4:]]), "wrong-iteration-count")

    def dist(a, b):
        d = 0.0
        for x, y in zip(a, b):
            sc = np.maximum(np.maximum(np.abs(x), np.abs(y)), 1e-300)
            d = max(d, float((np.abs(x - y) / sc).max()))
        return d

    d_here = dist(got, models[kstar])
    neigh = []
    if kstar >= 1:
        neigh.append(dist(models[kstar], models[kstar - 1]))
    neigh.append(dist(models[kstar], models[kstar + 1]))
    decisive = min(neigh) > 1e-4
    before_cap = cap is None or kstar < cap
    ctx.note(decisive and before_cap and thr is not None and any(upd) and init["C"] >= 2,
             "stop-before-cap" if before_cap and thr is not None else "stop-at-cap",
             "cap=None" if cap is None else None, "thr=None" if thr is None else None,
             "dask" if case["dask"] else "numpy", "decisive" if decisive else "neighbours-equal")
    ctx.stat_max("dist to predicted model", d_here)
    if d_here > 1e-6:
        # which iteration count does it match, if any?
        best = min(range(len(models)), key=lambda k: dist(got, models[k]))
        ctx.fail("fit(threshold=%r, cap=%r) returned the model of iteration %d (distance %.2g) instead of "
                 "iteration %d (distance %.2g); L=%s"
                 % (thr, cap, best, dist(got, models[best]), kstar, d_here,
                    ["%.10g" % v for v in L[1:kstar + 2]]), "wrong-iteration-count")


def g_again(draw):
    c = g_stop(draw)
    c["pre"] = gen.integer(draw, 1, 3)
    c["unknown_chunks"] = False
    return c


@REG.obligation("second_fit_applies_the_rule_afresh", g_again, quick=250, thorough=5000)
def c_again(ctx, case):
    """A machine trained before (same object, `pre` capped iterations, no threshold) and then trained again with a
    threshold and a cap continues from the parameters it holds, and the stop rule starts afresh: iteration 1 of the
    second call never stops, the call performs exactly min(k*, cap) iterations counted from its own start."""
    X, init, upd, thr, cap, pre = case["X"], case["init"], case["upd"], case["thr"], case["cap"], int(case["pre"])
    Kmax = cap if cap is not None else 40
    models, L, active = ref.ml_trajectory(X, (init["weights"], init["means"], init["variances"]), upd,
                                          pre + Kmax + 1, EPS, init["floors"])
    L2 = [None] + list(L[pre + 1: pre + Kmax + 2])
    kstar, closest = ref.stop_iteration(L2[: Kmax + 1], thr, cap)
    if kstar is None:
        ctx.discard("no stop within 40 iterations and no cap")
    if closest < 1e-6 and not (thr == 0.0 and closest >= 1e-11):
        ctx.discard("convergence value within 1e-6 of the threshold")
    if any(active[1:pre + kstar + 2]):
        ctx.discard("floor active (trajectory ill-conditioned)")
    g = machine(init, upd, None, pre)
    with guard.budget(pre + 1):
        fit(g, case)
    g.set_params(convergence_threshold=thr, max_fitting_steps=cap)
    with guard.budget(kstar + 2):
        fit(g, case)
        n_steps = guard.steps()
    got = sut.params_of(g)
    convs = [abs((L2[k - 1] - L2[k]) / L2[k - 1]) if L2[k - 1] != 0 else np.inf for k in range(2, kstar + 1)]
    sure = thr is None or all(abs(cv - thr) > 1e-6 * thr + 1e-12 for cv in convs)
    # is the previous call's last value within the threshold of this call's first? (then a rule that remembers it
    # would stop at once)
    carried = thr is not None and kstar >= 2 and abs((L[pre] - L[pre + 1]) / L[pre]) <= thr
    ctx.note(thr is not None and kstar >= 2 and any(upd) and init["C"] >= 2, "pre=%d" % pre,
             "previous call's last value within the threshold" if carried else None,
             "dask" if case["dask"] else "numpy", "stop-before-cap" if (cap is None or kstar < cap) else "stop-at-cap")
    if sure:
        ctx.check(n_steps == kstar, "second fit(threshold=%r, cap=%r) after %d earlier iteration(s) performed %d iterations, "
                  "the stop rule (started afresh) says %d" % (thr, cap, pre, n_steps, kstar), "wrong-iteration-count")
    want = models[pre + kstar]
    d = 0.0
    for x, y in zip(got, want):
        sc = np.maximum(np.maximum(np.abs(x), np.abs(y)), 1e-300)
        d = max(d, float((np.abs(x - y) / sc).max()))
    ctx.stat_max("dist to predicted model", d)
    ctx.check(d <= 1e-6, "second fit returned a model at relative distance %.2g from the one %d + %d iterations give"
              % (d, pre, kstar), "wrong-model")
