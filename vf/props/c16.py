"""C16 — a trained model is a function of the labelled sample multiset and the seed only."""
import numpy as np

from vf import gen, sut
from vf.runner import Registry

REG = Registry(
    "C16",
    rule=(
        "Model-based history generation: Hypothesis draws 1..3 registered (estimator, configuration, data, "
        "integer random_state) triples — k-means (seeded 'random' / 'k-means||'), GMM (seeded k-means "
        "initialisation), ISV, JFA (in memory and from a Dask bag) and WCCN — and a sequence of 2..8 operations: "
        "perturb NumPy's global generator (np.random.seed(k), draw j numbers), fit some other estimator (earlier "
        "fits are the history), re-fit a registered triple. Invariant: every re-fit equals the first result of "
        "its triple (1e-12 relative, which no dependence on the global generator can meet; bit-identical results "
        "are counted). Stateless metamorphic relations: permuting the training rows (k-means and GMM with "
        "explicit initial parameters; ISV/JFA statistics lists and fit_using_array; WCCN) and renaming the "
        "classes by any permutation of 0..K-1 (ISV/JFA/WCCN) leaves the model unchanged up to re-association "
        "rounding. Non-trivial: the permutation is not the identity and moves rows across class boundaries; "
        "history length >= 3 with a global-RNG perturbation between the two fits."
    ),
    assumptions=[
        "with SEEDED RANDOM initialisation the chosen initial points depend on row positions by design, so row-permutation invariance is only claimed given the same initial centroids / parameters",
        "labels are NumPy integer arrays with ids exactly 0..K-1",
    ],
)

KINDS = ["kmeans", "gmm", "isv", "jfa", "wccn", "jfa_bag", "isv_bag", "isv_late_ubm", "jfa_late_ubm", "isv_cold_ubm",
         "jfa_cold_ubm"]


def triple(draw, kind=None):
    kind = kind or gen.choice(draw, KINDS)
    seed = gen.integer(draw, 0, 2**16)
    r = gen.rng(draw)
    t = {"kind": kind, "seed": seed}
    if kind in ("kmeans", "gmm"):
        # few rows and up to five clusters: seeded initialisers that draw rows then often start two clusters on the
        # same row (or on equal rows of quantised data)
        c = gen.kmeans_data(draw, max_rows=gen.choice(draw, [24, 10, 8]), min_rows=6)
        t.update(X=c["X"], k=min(c["k"], gen.choice(draw, [3, 5])), init=gen.choice(draw, ["random", "k-means||"]),
                 dask=gen.boolean(draw), chunks=gen.composition(draw, c["X"].shape[0], max_parts=3))
    elif kind == "wccn":
        from vf.props.c14 import full_rank_data

        F = gen.integer(draw, 1, 3)
        n = gen.integer(draw, 2 * F + 4, 16)
        X, _ = full_rank_data(draw, n, F)
        y = np.concatenate([np.arange(2), r.integers(0, 2, n - 2)])
        t.update(X=X, y=y[np.array(gen.permutation(draw, n))])
    else:
        c = gen.fa_case(draw, jfa=kind.startswith("jfa"), max_sessions=1, maxC=2, maxF=2)
        K = gen.integer(draw, 2, 3)
        n = gen.integer(draw, K + 1, 8)
        y = np.concatenate([np.arange(K), r.integers(0, K, n - K)]).astype(int)
        y = y[np.array(gen.permutation(draw, n))]
        p = c["ubm"]
        sess = [gen.fractional_stats(draw, p["C"], p["F"], p["means"], p["variances"], n_frames=gen.integer(draw, 1, 8), r=r)
                for _ in range(n)]
        t.update(ubm=p, rU=c["U"].shape[1], rV=(c["V"].shape[1] if c["V"] is not None else 1), sessions=sess, y=y,
                 em=gen.integer(draw, 1, 2), npart=gen.integer(draw, 1, n))
        if kind.endswith("_late_ubm") or kind.endswith("_cold_ubm"):
            # the machine gets no trained UBM at construction (ubm=None + ubm_kwargs): U/V/D are created at fit time
            # (a 2-D array: one row per labelled item; the UBM is trained on the rows)
            t["frames"] = np.stack([gen.data_from(draw, p, 1, kind="bulk", r=r)[0][0] for _ in range(n)])
    return t


def fit_triple(t, reuse=None, other=None, cfg=None, seed_shift=0):
    """Train the registered triple; returns a dict of parameter arrays.  `reuse`: dict holding estimator objects of
    earlier fits of this triple (k-means / WCCN re-initialise on every fit, so the SAME object trained before on
    `other` data must give the same result as a new one)."""
    import dask.bag as db

    from bob.learn.em import GMMMachine, ISVMachine, JFAMachine, KMeansMachine, WCCN

    kind = t["kind"]
    if kind == "kmeans":
        data = sut.dask_rows(t["X"], t["chunks"]) if t["dask"] else t["X"]
        m = None if reuse is None else reuse.get("obj")
        if m is None:
            m = KMeansMachine(int(t["k"]), init_method=t["init"], random_state=int(t["seed"]), max_iter=3,
                              convergence_threshold=None)
        elif other is not None:
            m.fit(other)
        m.fit(data)
        if reuse is not None:
            reuse["obj"] = m
        return {"centroids": np.asarray(m.centroids_, float)}
    if kind == "gmm":
        data = sut.dask_rows(t["X"], t["chunks"]) if t["dask"] else t["X"]
        km = KMeansMachine(int(t["k"]), init_method=t["init"], random_state=int(t["seed"]), max_iter=2,
                           convergence_threshold=None)
        g = GMMMachine(int(t["k"]), random_state=int(t["seed"]), k_means_trainer=km if t["init"] == "random" else None,
                       max_fitting_steps=2, convergence_threshold=None, update_variances=True, update_weights=True)
        g.fit(data)
        return {"means": np.asarray(g.means, float), "variances": np.asarray(g.variances, float),
                "weights": np.asarray(g.weights, float)}
    if kind == "wccn":
        w = None if reuse is None else reuse.get("obj")
        if w is None:
            w = WCCN()
        elif other is not None:
            w.fit(other, np.asarray(t["y"]))
        w.fit(t["X"], np.asarray(t["y"]))
        if reuse is not None:
            reuse["obj"] = w
        return {"weights": np.asarray(w.weights, float)}
    ubm = sut.make_gmm(t["ubm"])
    if kind.endswith("_late_ubm"):
        kw = dict(ubm=None, ubm_kwargs=dict(n_gaussians=int(t["ubm"]["C"]), ubm=ubm, max_fitting_steps=2,
                                            convergence_threshold=None),
                  random_state=int(t["seed"]), em_iterations=int(t["em"]))
        m = JFAMachine(r_U=int(t["rU"]), r_V=int(t["rV"]), **kw) if kind.startswith("jfa") else ISVMachine(r_U=int(t["rU"]), **kw)
        m.fit_using_array(np.asarray(t["frames"]), np.asarray(t["y"]))
        out = {"U": np.asarray(m.U, float), "D": np.asarray(m.D, float)}
        if kind.startswith("jfa"):
            out["V"] = np.asarray(m.V, float)
        return out
    if kind.endswith("_cold_ubm"):
        # no UBM and no warm start: the machine trains its UBM itself, from a seeded k-means initialisation; `cfg` is the
        # caller's configuration dict (possibly shared by every machine of a history), None = a private one
        own = cfg if cfg is not None else dict(n_gaussians=int(t["ubm"]["C"]), max_fitting_steps=2, convergence_threshold=None)
        kw = dict(ubm=None, ubm_kwargs=own, random_state=int(t["seed"]) + int(seed_shift), em_iterations=int(t["em"]))
        m = JFAMachine(r_U=int(t["rU"]), r_V=int(t["rV"]), **kw) if kind.startswith("jfa") else ISVMachine(r_U=int(t["rU"]), **kw)
        m.fit_using_array(np.asarray(t["frames"]), np.asarray(t["y"]))
        out = {"U": np.asarray(m.U, float), "D": np.asarray(m.D, float), "ubm_means": np.asarray(m.ubm.means, float)}
        if kind.startswith("jfa"):
            out["V"] = np.asarray(m.V, float)
        return out
    stats = [sut.make_stats(s) for s in t["sessions"]]
    if kind.startswith("jfa"):
        m = JFAMachine(r_U=int(t["rU"]), r_V=int(t["rV"]), ubm=ubm, random_state=int(t["seed"]), em_iterations=int(t["em"]))
    else:
        m = ISVMachine(r_U=int(t["rU"]), ubm=ubm, random_state=int(t["seed"]), em_iterations=int(t["em"]))
    data = db.from_sequence(stats, npartitions=int(t["npart"])) if kind.endswith("_bag") else stats
    m.fit(data, np.asarray(t["y"]))
    out = {"U": np.asarray(m.U, float)}
    if kind.startswith("jfa"):
        out["V"] = np.asarray(m.V, float)
        out["D"] = np.asarray(m.D, float)
    return out


def g_history(draw):
    triples = [triple(draw) for _ in range(gen.integer(draw, 1, 3))]
    ops = []
    for _ in range(gen.integer(draw, 2, 8)):
        name = gen.choice(draw, ["perturb", "refit", "fit_other", "refit", "perturb", "fit_other_seed"])
        if name == "perturb":
            ops.append({"op": name, "k": gen.integer(draw, 0, 2**31 - 1), "j": gen.integer(draw, 0, 50)})
        else:
            ops.append({"op": name, "i": gen.integer(draw, 0, len(triples) - 1), "same_object": gen.boolean(draw),
                        "other_first": gen.boolean(draw)})
    return {"triples": triples, "ops": ops}


@REG.obligation("refit_is_independent_of_history_and_global_rng", g_history, quick=140, thorough=3000, shard_size=24)
def c_history(ctx, case):
    """Re-fitting a registered (estimator, data, seed) triple gives the first result again, whatever happened in between."""
    triples = case["triples"]
    first = {}
    objects = {}
    shared_cfg = {}
    perturbed_since = {}
    hist = 0
    decisive = False
    bitwise = 0
    for op in case["ops"]:
        if op["op"] == "perturb":
            np.random.seed(int(op["k"]))
            np.random.random(int(op["j"]))
            for i in perturbed_since:
                perturbed_since[i] = True
            continue
        i = int(op["i"])
        hist += 1
        cold = triples[i]["kind"].endswith("_cold_ubm")
        cfg = None
        if cold:
            # one configuration dict per UBM size, owned by the caller and handed to EVERY machine of this history
            C_ = int(triples[i]["ubm"]["C"])
            cfg = shared_cfg.setdefault(C_, dict(n_gaussians=C_, max_fitting_steps=2, convergence_threshold=None))
            if i not in first:
                # the reference of this triple comes from a machine with a private configuration and no history
                try:
                    clean = fit_triple(triples[i], None, None, cfg=None)
                except np.linalg.LinAlgError:
                    # a UBM trained from scratch on a handful of rows can leave a component without any data; the
                    # subspace training refuses such statistics (DESIGN 8.3) - not a matter of this property
                    ctx.discard("cold-start UBM left a component without data (training refused)")
                if not all(np.isfinite(v).all() for v in clean.values()):
                    ctx.discard("cold-start UBM training gave a non-finite model (empty k-means cluster)")
                first[i] = clean
                perturbed_since[i] = False
                # "what was trained before": a machine with ANOTHER seed is trained first with the shared dict
                try:
                    fit_triple(triples[i], None, None, cfg=cfg, seed_shift=7)
                except np.linalg.LinAlgError:
                    pass
            if op["op"] == "fit_other_seed":
                ctx.event("same configuration dict used by a machine with another seed")
                try:
                    fit_triple(triples[i], None, None, cfg=cfg, seed_shift=1 + int(op.get("same_object", 0)))
                except np.linalg.LinAlgError:
                    ctx.event("other-seed machine refused its statistics (component without data)")
                continue
        reuse = objects.setdefault(i, {}) if op.get("same_object") else None
        other = None
        if reuse is not None and "obj" in reuse:
            ctx.event("re-fit of the same estimator object")
            other = np.asarray(triples[i]["X"])[::-1] * 1.3 + 0.5 if op.get("other_first") else None
        res = fit_triple(triples[i], reuse, other, cfg=cfg)
        for k, v in res.items():
            ctx.finite(v, "%s of %s" % (k, triples[i]["kind"]))
        if i not in first:
            first[i] = res
            perturbed_since[i] = False
            continue
        # "fit_other" of an already registered triple is part of the history and must agree as well
        for k, v in res.items():
            w = first[i][k]
            ctx.close(v, w, "%s of a re-fitted %s (same data, configuration and random_state)" % (k, triples[i]["kind"]),
                      rtol=1e-12, atol=1e-15 * (np.abs(w).max() + 1e-300))
            if np.array_equal(v, w):
                bitwise += 1
        if perturbed_since[i] and hist >= 3:
            decisive = True
    ctx.event("bit-identical re-fits", bitwise)
    ctx.note(decisive, *sorted({"kind:" + t["kind"] for t in triples}), "ops=%d" % len(case["ops"]))


# ---------------------------------------------------------------------------- permutations

def g_perm(draw):
    kind = gen.choice(draw, ["kmeans", "gmm", "isv", "jfa", "wccn", "fa_array", "jfa_bag", "fa_array"])
    r = gen.rng(draw)
    c = {"kind": kind}
    if kind in ("kmeans", "gmm"):
        d = gen.kmeans_data(draw, max_rows=24, min_rows=5)
        X, k = d["X"], min(d["k"], 4)
        idx = r.choice(X.shape[0], size=k, replace=False) if X.shape[0] >= k else np.arange(k) % X.shape[0]
        c.update(X=X, k=k, init=X[idx] + d["scale"] * r.normal(0, 0.3, (k, X.shape[1])), scale=d["scale"],
                 dask=gen.boolean(draw), chunks=gen.composition(draw, X.shape[0], max_parts=4))
        c["perm"] = gen.permutation(draw, X.shape[0])
        c["relabel"] = None
    elif kind == "wccn":
        from vf.props.c14 import full_rank_data

        F = gen.integer(draw, 1, 3)
        K = gen.integer(draw, 2, 4)
        n = gen.integer(draw, F + 2 * K + 2, 20)
        X, _ = full_rank_data(draw, n, F)
        y = np.concatenate([np.arange(K), np.arange(K), r.integers(0, K, n - 2 * K)])
        if gen.boolean(draw):
            # a class may hold a single sample (it adds no scatter and still counts as a class)
            lone = gen.integer(draw, 0, K - 1)
            y = np.concatenate([np.arange(K), np.array([k_ for k_ in range(K) if k_ != lone]),
                                r.choice([k_ for k_ in range(K) if k_ != lone], n - 2 * K + 1)])
        c.update(X=X, y=y[np.array(gen.permutation(draw, n))], perm=gen.permutation(draw, n),
                 relabel=gen.permutation(draw, K), dask=gen.boolean(draw), chunks=gen.composition(draw, n, max_parts=4))
    else:
        f = gen.fa_case(draw, jfa=(kind in ("jfa", "jfa_bag") or (kind == "fa_array" and gen.boolean(draw))),
                        max_sessions=1, maxC=2, maxF=2)
        K = gen.integer(draw, 2, 4)
        n = gen.integer(draw, K + 1, 9)
        y = np.concatenate([np.arange(K), r.integers(0, K, n - K)]).astype(int)
        y = y[np.array(gen.permutation(draw, n))]
        p = f["ubm"]
        c.update(f)
        c["kind"] = kind
        if kind == "fa_array":
            c["X"] = np.stack([gen.data_from(draw, p, 2, kind="bulk", r=r)[0] for _ in range(n)])
        else:
            c["sessions"] = [gen.fractional_stats(draw, p["C"], p["F"], p["means"], p["variances"],
                                                  n_frames=gen.integer(draw, 1, 8), r=r) for _ in range(n)]
        c.update(y=y, em=gen.integer(draw, 1, 2), perm=gen.permutation(draw, n), relabel=gen.permutation(draw, K),
                 npart=gen.integer(draw, 1, n), dask=(kind == "fa_array" and gen.choice(draw, [True, True, False])),
                 chunks=gen.composition(draw, n, max_parts=3))
    return c


def fit_perm(c, order, relabel):
    import dask.bag as db

    from bob.learn.em import GMMMachine, KMeansMachine, WCCN

    kind = c["kind"]
    order = np.asarray(order)
    if kind in ("kmeans", "gmm"):
        X = c["X"][order]
        data = sut.dask_rows(X, c["chunks"]) if c["dask"] else X
        if kind == "kmeans":
            m = KMeansMachine(int(c["k"]), init_method=np.array(c["init"], copy=True), max_iter=3,
                              convergence_threshold=None).fit(data)
            return {"centroids": np.asarray(m.centroids_, float), "criterion": np.asarray(m.average_min_distance, float)}
        g = GMMMachine(int(c["k"]), max_fitting_steps=3, convergence_threshold=None, update_variances=True,
                       update_weights=True)
        g.means = np.array(c["init"], copy=True)
        g.variances = np.full_like(c["init"], float(c["scale"]) ** 2)
        g.fit(data)
        return {"means": np.asarray(g.means, float), "variances": np.asarray(g.variances, float),
                "weights": np.asarray(g.weights, float)}
    y = np.asarray(c["y"])[order]
    if relabel is not None:
        y = np.asarray(relabel)[y]
    if kind == "wccn":
        Xo = c["X"][order]
        if c.get("dask"):
            import dask

            w = WCCN().fit(sut.dask_rows(Xo, c["chunks"]), y).weights
            return {"weights": np.asarray(dask.compute(w)[0], float)}
        return {"weights": np.asarray(WCCN().fit(Xo, y).weights, float)}
    m = sut.make_fa(c, em_iterations=int(c["em"]))
    if kind == "fa_array":
        Xo = c["X"][order]
        if c.get("dask"):
            import dask.array as da

            Xo = da.from_array(Xo, chunks=(tuple(c["chunks"]),) + tuple((s_,) for s_ in Xo.shape[1:]))
        m.fit_using_array(Xo, y)
    else:
        stats = [sut.make_stats(c["sessions"][i]) for i in order]
        data = db.from_sequence(stats, npartitions=int(c["npart"])) if kind == "jfa_bag" else stats
        m.fit(data, y)
    out = {"U": np.asarray(m.U, float)}
    if c["jfa"]:
        out["V"] = np.asarray(m.V, float)
        out["D"] = np.asarray(m.D, float)
    return out


@REG.obligation("row_order_and_class_names_do_not_matter", g_perm, quick=260, thorough=6000, shard_size=44)
def c_perm(ctx, case):
    """Presenting the samples in another order, or renaming the classes by a permutation of the ids, gives the same model."""
    n = len(case["perm"])
    base = fit_perm(case, np.arange(n), None)
    for v in base.values():
        if not np.isfinite(v).all():
            ctx.discard("non-finite base model (empty cluster)")
    if case["kind"] == "gmm":
        spread2 = float(np.var(case["X"], axis=0).max()) + 1e-300
        if (base["variances"] < 1e-8 * spread2).any():
            ctx.discard("collapsed component (responsibilities amplify rounding by 1/variance)")
    perm = np.asarray(case["perm"])
    moved = bool((perm != np.arange(n)).any())
    if "y" in case:
        y = np.asarray(case["y"])
        moved = moved and bool((y[perm] != y).any())
    rel = case.get("relabel")
    rel_nontrivial = rel is not None and list(rel) != sorted(rel)
    ctx.note(moved and (rel is None or rel_nontrivial), "kind:" + case["kind"],
             "relabelled" if rel_nontrivial else None, "dask" if case.get("dask") else None)
    variants = [("permuted rows", perm, None)]
    if rel is not None:
        variants.append(("renamed classes", np.arange(n), rel))
        variants.append(("permuted rows and renamed classes", perm, rel))
    for what, order, relabel in variants:
        got = fit_perm(case, order, relabel)
        for k, w in base.items():
            scale = np.abs(w).max() + 1e-300
            if case["kind"] in ("kmeans", "gmm"):
                scale += float(np.abs(case["X"]).max()) ** (2 if k in ("variances", "criterion") else 1)
            elif "ubm" in case and k in ("U", "V", "D"):
                # subspace entries live in feature units: below 1e-3 of the tolerance unit they are rounding noise
                scale += 1e-3 * float(np.sqrt(np.mean(np.asarray(case["ubm"]["variances"], float))))
            ctx.close(got[k], w, "%s after %s" % (k, what), rtol=1e-7, atol=1e-9 * scale)


def g_own_ubm(draw):
    # a machine that trains its own UBM from the rows of fit_using_array; the classes get other ids
    t = triple(draw, kind=gen.choice(draw, ["isv_cold_ubm", "jfa_cold_ubm"]))
    K = int(np.max(t["y"])) + 1
    t["relabel"] = gen.permutation(draw, K)
    return t


@REG.obligation("class_names_do_not_matter_when_the_machine_trains_its_own_ubm", g_own_ubm, quick=60, thorough=1200, shard_size=10)
def c_own_ubm(ctx, case):
    """fit_using_array on a machine without UBM: the UBM is trained on the rows as given and the model does not depend
    on which integer names the classes carry."""
    if not str(case.get("kind", "")).endswith("_cold_ubm"):
        ctx.discard("not a cold-UBM case")
    rel = np.asarray(case["relabel"])
    try:
        base = fit_triple(case)
        other = fit_triple(dict(case, y=rel[np.asarray(case["y"])]))
    except np.linalg.LinAlgError:
        ctx.discard("cold-start UBM left a component without data (training refused)")
    for v in list(base.values()) + list(other.values()):
        if not np.isfinite(v).all():
            ctx.discard("cold-start UBM training gave a non-finite model (empty k-means cluster)")
    y = np.asarray(case["y"])
    ctx.note(list(rel) != sorted(rel) and list(y) != sorted(y), case["kind"], "unsorted-labels" if list(y) != sorted(y) else "sorted-labels")
    # U, V, D live in feature units: an entry far below 1e-12 of the spread of the features is rounding noise (D in
    # particular may collapse to ~1e-30, where the order of the additions decides every digit)
    unit = float(np.std(np.asarray(case["frames"], float))) + 1e-300
    for k, w in base.items():
        ctx.close(other[k], w, "%s after renaming the classes (own UBM)" % k, rtol=1e-7,
                  atol=1e-9 * (np.abs(w).max() + 1e-300) + 1e-12 * unit)
