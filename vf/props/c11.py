"""C11 — ISV/JFA scores are channel-compensated linear scores, the same via every entry point."""
import numpy as np

from vf import gen, ref, sut
from vf.runner import Registry

REG = Registry(
    "C11",
    rule=(
        "Hypothesis draws machine parameters as C07 (UBM, U, V, D with generated relative scales), latent "
        "client factors, and probes given as one statistic, several statistics, or frame arrays; for the "
        "training wrappers small labelled sets of frame arrays. Oracles: score == reference linear score of "
        "the client mean (m + Dz [+ Vy]) against the POOLED probe statistics with the UBM shifted by U x_hat, "
        "x_hat from an independent solve on the pooled statistics, frame-normalised; score([a,b,c]) == "
        "score([a+b+c]); estimate_x / estimate_ux == reference; score_using_array / enroll_using_array / "
        "ISVMachine.transform / fit_using_array agree with the statistics-level entry points applied to the "
        "UBM statistics of the same arrays. Non-trivial: >=2 probe statistics with different counts and U x_hat "
        "not negligible against the client offset."
    ),
    assumptions=["labels for fit are NumPy integer arrays with ids exactly 0..K-1 (they index per-class arrays)"],
)


def client_case(draw):
    c = gen.fa_case(draw, max_sessions=4, scale_lo=-6, scale_hi=3)
    r = gen.rng(draw)
    fa = sut.fa_ref(c)
    c["z"] = r.normal(0, 1, fa.CF)
    if gen.choice(draw, [False, False, False, True]):
        c["z"] = np.zeros(fa.CF)  # a client without residual offset (what enrolment returns when D = 0)
    c["y"] = r.normal(0, 1, fa.rV) if c["jfa"] else None
    c["z_2d"] = (not c["jfa"]) and gen.boolean(draw)  # ISVMachine.enroll returns a (1, CF) array
    if gen.choice(draw, [False, False, False, True]):
        c["stats_layout"] = "lazy"  # probe statistics whose arrays are still Dask arrays (acc_stats of a Dask array)
    c["ubm_seeded"] = gen.choice(draw, [False, False, True])  # the UBM is an ML machine warm-started from another GMM
    return c


def pooled(sessions):
    return {"t": sum(s["t"] for s in sessions), "n": sum(s["n"] for s in sessions),
            "sum_px": sum(s["sum_px"] for s in sessions), "sum_pxx": sum(s["sum_pxx"] for s in sessions)}


def ref_score(case, sessions):
    p = case["ubm"]
    fa = sut.fa_ref(case)
    pl = pooled(sessions)
    F = p["F"]
    N = np.repeat(pl["n"], F)
    A = np.eye(fa.rU) + fa.U.T @ ((N / fa.sig)[:, None] * fa.U)
    x = np.linalg.solve(A, fa.U.T @ ((pl["sum_px"].ravel() - N * fa.m) / fa.sig))
    ux = fa.U @ x
    mean = fa.m + fa.D * case["z"]
    if case["jfa"]:
        mean = mean + fa.V @ case["y"]
    C = p["C"]
    sc = ref.linear_score(mean.reshape(1, C, F), p["means"], p["variances"], [pl], ux.reshape(C, F), True)[0, 0]
    return float(sc), x, ux, mean


def model_arg(case):
    z = np.array(case["z"], dtype=float)
    if case["jfa"]:
        return (np.array(case["y"], dtype=float), z)
    return z[None, :] if case["z_2d"] else z


@REG.obligation("score_is_compensated_linear_score", client_case, quick=600, thorough=12000)
def c_score(ctx, case):
    """score == linear score of the client mean vs the pooled probe with the UBM shifted by U x_hat."""
    m = sut.make_fa(case)
    sessions = case["sessions"]
    want, x, ux, mean = ref_score(case, sessions)
    counts = {round(float(s["n"].sum()), 9) for s in sessions}
    client_off = np.abs(mean - sut.fa_ref(case).m).max() + 1e-300
    ctx.note(len(sessions) >= 2 and len(counts) >= 2 and np.abs(ux).max() > 1e-3 * client_off,
             "jfa" if case["jfa"] else "isv", "probe=%d" % len(sessions), "z2d" if case["z_2d"] else None)
    stats = sut.sessions_of(case)
    snap = [sut.stats_dict(s) for s in stats]
    got = float(m.score(model_arg(case), stats))
    p = case["ubm"]
    mag = float((np.abs(mean.reshape(p["C"], p["F"]) - p["means"]) / p["variances"]
                 * (np.abs(pooled(sessions)["sum_px"]) + pooled(sessions)["n"][:, None]
                    * (np.abs(p["means"]) + np.abs(ux.reshape(p["C"], p["F"]))))).sum()) / max(pooled(sessions)["t"], 1)
    ctx.close(got, want, "score", rtol=1e-8, atol=1e-10 * mag)
    gx = np.asarray(m.estimate_x(stats), float)
    ctx.close(gx, x, "estimate_x", rtol=1e-7, atol=1e-9 * (np.abs(x).max() + 1e-300))
    gux = np.asarray(m.estimate_ux(stats), float)
    ctx.close(gux, ux, "estimate_ux", rtol=1e-7, atol=1e-9 * (np.abs(ux).max() + 1e-300))
    # several statistics == their sum
    one = sut.make_stats(pooled(sessions))
    got1 = float(m.score(model_arg(case), [one]))
    ctx.close(got, got1, "score([a,b,..]) == score([a+b+..])", rtol=1e-9, atol=1e-11 * mag)
    # the machine must follow later assignments of its parameters (no stale cached products)
    case2 = dict(case, U=np.array(case["U"]) * 0.5 + 0.05 * np.abs(case["U"]).mean(axis=1, keepdims=True), D=np.array(case["D"]) * 1.5)
    m.U = np.array(case2["U"])
    m.D = np.array(case2["D"])
    want2, x2, ux2, mean2 = ref_score(case2, sessions)
    ctx.close(float(m.score(model_arg(case), stats)), want2, "score after U and D were re-assigned", rtol=1e-8,
              atol=1e-10 * mag * 10 + 1e-9 * abs(want2))
    ctx.close(np.asarray(m.estimate_x(stats), float), x2, "estimate_x after U and D were re-assigned", rtol=1e-7,
              atol=1e-9 * (np.abs(x2).max() + 1e-300))
    # scoring must not change the probe statistics
    for s, before in zip(stats, snap):
        after = sut.stats_dict(s)
        ok = all(np.array_equal(np.asarray(after[k]), np.asarray(before[k])) for k in before)
        ctx.check(ok, "scoring modified a probe statistics object", "probe-modified")


def g_long(draw):
    c = client_case(draw)
    c["cond_target"] = 10.0 ** gen.choice(draw, [10.3, 10.6, 11.0, 9.0])
    return c


@REG.obligation("long_probes_keep_the_posterior_mean", g_long, quick=250, thorough=5000)
def c_long(ctx, case):
    """A long probe (1e5..1e9 frames) and channel directions of very different strength: I + U'S^-1 N U is badly
    conditioned but never singular (all eigenvalues >= 1), and estimate_x still solves the defining system, up to
    the rounding its condition number explains."""
    EPS = np.finfo(float).eps
    U = np.array(case["U"], dtype=float)
    if U.shape[1] < 2:
        ctx.discard("a single channel direction")
    U[:, 0] *= 300.0
    U[:, -1] *= 1e-3
    case = dict(case, U=U)
    p = case["ubm"]
    F = p["F"]
    fa = sut.fa_ref(case)
    pl = pooled(case["sessions"])
    N = np.repeat(pl["n"], F)
    lam = float(np.linalg.eigvalsh(U.T @ ((N / fa.sig)[:, None] * U)).max())
    if not np.isfinite(lam) or lam <= 0:
        ctx.discard("no evidence in the probe")
    k = float(case["cond_target"]) / lam
    sessions = [dict(s, n=np.asarray(s["n"]) * k, sum_px=np.asarray(s["sum_px"]) * k, sum_pxx=np.asarray(s["sum_pxx"]) * k,
                     t=max(1, int(round(s["t"] * k)))) for s in case["sessions"]]
    case = dict(case, sessions=sessions)
    pl = pooled(sessions)
    N = np.repeat(pl["n"], F)
    A = np.eye(fa.rU) + U.T @ ((N / fa.sig)[:, None] * U)
    cond = float(np.linalg.cond(A))
    if not np.isfinite(cond) or cond > 1e12:
        ctx.discard("condition number beyond 1e12")
    b = U.T @ ((pl["sum_px"].ravel() - N * fa.m) / fa.sig)
    x = np.linalg.solve(A, b)
    ctx.note(cond > 2e10 and np.abs(x).max() > 0, "jfa" if case["jfa"] else "isv", "cond=1e%d" % int(np.floor(np.log10(cond))))
    m = sut.make_fa(case)
    stats = sut.sessions_of(case)
    gx = np.asarray(m.estimate_x(stats), float).reshape(-1)
    ctx.stat_max("x error / (eps*cond*|x|)", float(np.abs(gx - x).max() / (EPS * cond * np.abs(x).max() + 1e-300)))
    ctx.close(gx, x, "estimate_x of a long probe (cond %.1e)" % cond, rtol=0, atol=1e3 * EPS * cond * np.abs(x).max() + 1e-300)
    # the defining system itself: (I + U'S^-1 N U) x = U'S^-1 (F - N m), judged along every eigen-direction of the matrix
    w, Q = np.linalg.eigh(A)
    res = Q.T @ (A @ gx - b)
    ctx.close(res, np.zeros_like(res), "residual of the defining system along the eigen-directions", rtol=0,
              atol=1e3 * EPS * cond * (np.abs(Q.T @ b).max() + np.abs(w).max() * 0 + 1e-300))


def g_arrays(draw):
    c = client_case(draw)
    r = gen.rng(draw)
    k = gen.integer(draw, 1, 3)
    c["arrays"] = [gen.data_from(draw, c["ubm"], gen.integer(draw, 1, 10), kind="bulk", r=r)[0] for _ in range(k)]
    c["enroll_iters"] = gen.integer(draw, 1, 3)
    return c


@REG.obligation("array_entry_points", g_arrays, quick=300, thorough=6000)
def c_arrays(ctx, case):
    """score_using_array / enroll_using_array / ISVMachine.transform == statistics-level calls on ubm.acc_stats."""
    m = sut.make_fa(case, enroll_iterations=case["enroll_iters"])
    ubm = m.ubm
    arrays = case["arrays"]
    ctx.note(len(arrays) >= 2, "jfa" if case["jfa"] else "isv", "arrays=%d" % len(arrays))
    stats = [ubm.acc_stats(a) for a in arrays]
    a = float(m.score_using_array(model_arg(case), arrays))
    b = float(m.score(model_arg(case), stats))
    ctx.close(a, b, "score_using_array == score(acc_stats)", rtol=1e-10, atol=1e-13)
    if not case["jfa"]:
        # a single frame handed to ISVMachine.transform as a 1-D vector of n_features values
        fr = np.array(arrays[0][0], dtype=float)
        t1 = np.asarray(m.transform(fr), float).reshape(-1)
        t2 = np.asarray(m.estimate_ux([ubm.acc_stats(fr)]), float).reshape(-1)
        ctx.close(t1, t2, "transform(frame) for one 1-D frame == estimate_ux([acc_stats(frame)])", rtol=1e-9,
                  atol=1e-12 * (np.abs(t2).max() + 1e-300))
    # one probe handed over as a bare (n_frames, n_features) array: an array of frames
    bare = float(m.score_using_array(model_arg(case), np.array(arrays[0], dtype=float)))
    b0 = float(m.score(model_arg(case), [stats[0]]))
    ctx.close(bare, b0, "score_using_array(model, X) for a bare 2-D X == score(acc_stats(X))", rtol=1e-8,
              atol=1e-10 * (abs(b0) + abs(b)) + 1e-13)
    # independent route as well: reference statistics + reference score
    p = case["ubm"]
    rs = []
    for X in arrays:
        s = ref.gmm_stats(X, p["weights"], p["means"], p["variances"])
        rs.append({"t": s["t"], "n": s["n"], "sum_px": s["sum_px"], "sum_pxx": s["sum_pxx"]})
    want, x, ux, mean = ref_score(case, rs)
    ctx.close(a, want, "score_using_array vs reference", rtol=1e-7, atol=1e-9 * (abs(want) + 1))
    X0 = arrays[0]
    e1 = m.enroll_using_array(X0)
    e2 = m.enroll([ubm.acc_stats(X0)])
    if case["jfa"]:
        ctx.close(e1[0], e2[0], "enroll_using_array y", rtol=1e-10, atol=1e-13)
        ctx.close(np.ravel(e1[1]), np.ravel(e2[1]), "enroll_using_array z", rtol=1e-10, atol=1e-13)
    else:
        ctx.close(np.ravel(e1), np.ravel(e2), "enroll_using_array z", rtol=1e-10, atol=1e-13)
        fa = sut.fa_ref(case)
        rz = fa.enroll([(rs[0]["n"], rs[0]["sum_px"])], case["enroll_iters"])[-1][2]
        ctx.close(np.ravel(e1), rz, "enroll_using_array vs reference block ascent", rtol=1e-6,
                  atol=1e-7 * (np.abs(rz).max() + 1e-300))
        t1 = np.asarray(m.transform(X0), float)
        t2 = np.asarray(m.estimate_ux([ubm.acc_stats(X0)]), float)
        ctx.close(t1, t2, "ISVMachine.transform == estimate_ux([acc_stats])", rtol=1e-10, atol=1e-13)
        _, x0, ux0, _ = ref_score(case, rs[:1])
        ctx.close(t1, ux0, "ISVMachine.transform vs reference U x_hat", rtol=1e-7,
                  atol=1e-9 * (np.abs(ux0).max() + 1e-300))


def g_fit(draw):
    c = gen.fa_case(draw, max_sessions=1, maxC=2, maxF=2)
    r = gen.rng(draw)
    K = gen.integer(draw, 2, 3)
    per = [gen.integer(draw, 1, 3) for _ in range(K)]
    labels = np.concatenate([np.full(n, i) for i, n in enumerate(per)]).astype(int)
    perm = np.array(gen.permutation(draw, len(labels)))
    labels = labels[perm]
    frames = gen.integer(draw, 1, 4)
    shape3 = gen.boolean(draw)
    n = len(labels)
    X = np.stack([gen.data_from(draw, c["ubm"], frames, kind="bulk", r=r)[0] for _ in range(n)])
    if not shape3:
        X = X[:, 0, :]
    c.update(X=X, y=labels, em=gen.integer(draw, 1, 2), dask=gen.boolean(draw),
             chunks=gen.composition(draw, n, max_parts=4), isolate=gen.boolean(draw), order_seed=gen.integer(draw, 0, 999))
    # a 3-D (samples, frames, features) Dask array may be chunked along the frame axis as well
    c["frame_chunks"] = gen.composition(draw, frames, max_parts=3) if shape3 else None
    return c


@REG.obligation("fit_using_array", g_fit, quick=120, thorough=2500, shard_size=20)
def c_fit(ctx, case):
    """fit_using_array(X, y) == fit(ubm.transform(X), y) (NumPy and row-chunked Dask arrays)."""
    import dask.array as da

    X, y = case["X"], np.asarray(case["y"])
    p_ = case["ubm"]
    tot = ref.gmm_stats(np.asarray(X, float).reshape(-1, p_["F"]), p_["weights"], p_["means"], p_["variances"])["n"]
    if float(np.min(tot)) < 1e-3:
        # a UBM component that no training row reaches has no defined subspace rows (ISV/JFA training divides by its
        # count: LinAlgError or non-finite rows); training sets with every component alive are the stated domain
        ctx.discard("a UBM component without data in the whole training set")
    a = sut.make_fa(case, em_iterations=case["em"])
    b = sut.make_fa(case, em_iterations=case["em"])
    data = X
    if case["dask"]:
        chunks = (tuple(case["chunks"]),) + tuple((s,) for s in X.shape[1:])
        if X.ndim == 3 and case.get("frame_chunks"):
            chunks = (tuple(case["chunks"]), tuple(case["frame_chunks"]), (X.shape[2],))
        data = da.from_array(X, chunks=chunks)
    ctx.note(len(set(y.tolist())) >= 2 and list(y) != sorted(y), "jfa" if case["jfa"] else "isv",
             "dask" if case["dask"] else "numpy", "3d" if X.ndim == 3 else "2d")
    if case["dask"]:
        # tasks run one at a time in a generated order, with or without serialised copies of the machine (as on
        # worker processes): whatever the tasks compute must reach the caller's machine
        from vf import sched

        with sched.owned("random", int(case.get("order_seed", 0)), bool(case.get("isolate", False))):
            a.fit_using_array(data, y)
        if case.get("isolate"):
            ctx.event("fit_using_array on isolated tasks")
    else:
        a.fit_using_array(data, y)
    b.fit(b.ubm.transform(X), y)
    for name in ("U", "D") + (("V",) if case["jfa"] else ()):
        ga, gb = np.asarray(getattr(a, name), float), np.asarray(getattr(b, name), float)
        ctx.close(ga, gb, "fit_using_array %s == fit(transform) %s" % (name, name), rtol=1e-7,
                  atol=1e-9 * (np.abs(gb).max() + 1e-300) + 1e-12 * float(np.sqrt(np.mean(np.asarray(case["ubm"]["variances"], float)))))
        ctx.finite(ga, name)


def g_lifecycle(draw):
    from vf.props import c09

    c = c09.g_train(draw)
    c["jfa"] = gen.boolean(draw)
    if not c["jfa"]:
        c["V"] = None
    r = gen.rng(draw)
    fa = sut.fa_ref(c)
    c["z"] = r.normal(0, 1, fa.CF)
    if gen.choice(draw, [False, False, False, True]):
        c["z"] = np.zeros(fa.CF)
    c["yy"] = r.normal(0, 1, fa.rV) if c["jfa"] else None
    c["em"] = gen.integer(draw, 1, 2)
    c["step"] = gen.choice(draw, ["fit", "fit", "ubm", "fit_bag", "inplace_U"])
    c["probe"] = [gen.fractional_stats(draw, c["ubm"]["C"], c["ubm"]["F"], c["ubm"]["means"], c["ubm"]["variances"], r=r)
                  for _ in range(gen.integer(draw, 1, 3))]
    return c


@REG.obligation("scores_follow_the_machine_after_retraining", g_lifecycle, quick=200, thorough=4000, shard_size=34)
def c_lifecycle(ctx, case):
    """A machine that has already scored, and is then re-trained / re-pointed to another UBM / has U changed in
    place, scores like a FRESH machine holding the same U, V, D and UBM (no state derived from the old parameters)."""
    import dask.bag as db

    m = sut.make_fa(case, em_iterations=case["em"])
    probe = [sut.make_stats(s) for s in case["probe"]]
    model = (case["yy"], case["z"]) if case["jfa"] else case["z"]
    m.score(model, probe)
    m.estimate_x(probe)
    stats = sut.sessions_of(case)
    y = np.asarray(case["y"])
    ubm_params = case["ubm"]
    if case["step"] == "fit":
        m.fit(stats, y)
    elif case["step"] == "fit_bag":
        m.fit(db.from_sequence(stats, npartitions=2), y)
    elif case["step"] == "ubm":
        ubm_params = dict(case["ubm"], means=np.array(case["ubm"]["means"]) * 0.8 - 0.3,
                          variances=np.array(case["ubm"]["variances"]) * 1.9)
        m.ubm = sut.make_gmm(ubm_params)
    else:
        m.U[...] = np.asarray(m.U) * 0.5 + 0.01  # in-place edit of the public attribute
    ctx.note(True, "jfa" if case["jfa"] else "isv", "step:" + case["step"])
    fresh_case = dict(case, ubm=ubm_params, U=np.array(m.U), D=np.array(m.D), V=(np.array(m.V) if case["jfa"] else None),
                      swap_ubm=False)
    fresh = sut.make_fa(fresh_case)
    a, b = float(m.score(model, probe)), float(fresh.score(model, probe))
    want, x, ux, mean = ref_score(dict(fresh_case, y=case["yy"], z=case["z"]), case["probe"])
    ctx.close(a, b, "score after %s vs fresh machine with the same parameters" % case["step"], rtol=1e-9, atol=1e-12 * (1 + abs(b)))
    ctx.close(a, want, "score after %s vs reference" % case["step"], rtol=1e-7, atol=1e-9 * (1 + abs(want)))
    ctx.close(np.asarray(m.estimate_x(probe), float), x, "estimate_x after %s vs reference" % case["step"], rtol=1e-7,
              atol=1e-9 * (np.abs(x).max() + 1e-300))
