"""C18 — saving and loading a GMM or its statistics preserves them exactly."""
import os
import tempfile

import numpy as np

from vf import gen, sut
from vf.runner import Registry

EPS = np.finfo(float).eps

REG = Registry(
    "C18",
    rule=(
        "Hypothesis draws reachable machines (ML, and MAP over a prior; after 0..3 EM steps; scalar / vector / "
        "matrix floors incl. floors below machine epsilon; all switch combinations; caps 0..200; thresholds "
        "0 and 1e-8..0.3) and statistics (from frames, fractional, zero), a path or an open h5py.File on either side, "
        "constructor-from-file or load into an existing object of a different shape, 1..3 round trips, and legacy "
        "layouts written by the harness in the layout of the repository's legacy files. Oracles: parameters / "
        "statistics BIT-identical; package equality true; identical log_likelihood on a probe batch; every "
        "recorded setting (trainer, max_fitting_steps, convergence_threshold, the three switches) equal; the "
        "original and the reloaded machine (unrecorded settings copied across) CONTINUE TRAINING to bit-identical "
        "models; saving the reloaded object gives a file whose datasets equal the first file's; a legacy file loads "
        "to the same model as its current-format counterpart. Non-trivial: a MAP machine or a non-default setting, "
        "and continued training allowed >= 2 steps (cap >= 2) with strictly positive floors."
    ),
    assumptions=["max_fitting_steps=None / convergence_threshold=None cannot be written (h5py refuses None, save raises "
                 "TypeError; nothing is lost silently) and are outside the generator"],
)


class Tmp:
    def __init__(self):
        self.paths = []

    def new(self):
        fd, p = tempfile.mkstemp(suffix=".h5", prefix="vf_c18_")
        os.close(fd)
        os.remove(p)
        self.paths.append(p)
        return p

    def cleanup(self):
        for p in self.paths:
            try:
                os.remove(p)
            except OSError:
                pass


def dump(path):
    import h5py

    out = {}
    with h5py.File(path, "r") as h:
        out["@attrs"] = {k: (v.decode() if isinstance(v, bytes) else v) for k, v in h.attrs.items()}

        def visit(name, obj):
            if isinstance(obj, h5py.Dataset):
                v = obj[()]
                out[name] = v.decode() if isinstance(v, bytes) else np.array(v)

        h.visititems(visit)
    return out


def same_dump(a, b):
    if set(a) != set(b):
        return "different dataset names: %s vs %s" % (sorted(a), sorted(b))
    for k in a:
        if k == "@attrs":
            if a[k] != b[k]:
                return "attributes differ"
            continue
        x, y = a[k], b[k]
        if isinstance(x, str) or isinstance(y, str):
            if x != y:
                return "%s: %r vs %r" % (k, x, y)
            continue
        if np.shape(x) != np.shape(y) or not np.array_equal(x, y):
            return "%s differs: %r vs %r" % (k, x, y)
    return None


def g_machine(draw):
    C, F = gen.dims(draw, maxC=4, maxF=3)
    r = gen.rng(draw)
    scales = gen.feature_scales(draw, F, lo=-2, hi=2)
    p = gen.gmm_params(draw, C, F, scales=scales, kmax=5.0)
    if gen.choice(draw, [False, False, True]):
        # a machine whose floors were lowered below machine epsilon and whose variances are tiny
        p["floors"] = gen.choice(draw, [0.0, 1e-30])
        p["floor_kind"] = "tiny"
        p["variances"] = p["variances"].copy()
        p["variances"][gen.integer(draw, 0, C - 1)] = 10.0 ** r.uniform(-20, -17, F)
    shifted = dict(p, means=p["means"] + scales[None, :] * r.normal(0, 1.0, (C, F)))
    X, _ = gen.data_from(draw, shifted, gen.integer(draw, 6, 24), kind="bulk", r=r)
    probe, _ = gen.data_from(draw, p, gen.integer(draw, 1, 6), kind="bulk", r=r)
    upd = [bool(b) for b in gen.choice(draw, [(1, 1, 1), (1, 0, 0), (0, 1, 0), (0, 0, 1), (1, 1, 0), (1, 0, 1), (0, 1, 1),
                                              (0, 0, 0)])]
    return {"p": p, "X": X, "probe": probe, "upd": upd, "map": gen.choice(draw, [False, True]),
            "thr": gen.choice(draw, [1e-2, 1e-1, 1e-3, 0.0, 0.3, 1e-5, 1e-8, 3e-2]),
            "cap": gen.choice(draw, [12, 8, 5, 3, 2, 1, 200, 0]),
            "pre_steps": gen.integer(draw, 0, 3), "trips": gen.integer(draw, 1, 3),
            "save_as": gen.choice(draw, ["path", "file"]), "read_as": gen.choice(draw, ["path", "file"]),
            "how": gen.choice(draw, ["from_hdf5", "load"]), "C2": gen.integer(draw, 1, 5),
            "relevance": gen.choice(draw, [4.0, 0.5, 20.0, None]), "alpha": gen.choice(draw, [0.5, 0.2, 0.9]),
            "count_floor": gen.choice(draw, [EPS, 1e-6]),
            "own_params": gen.choice(draw, [0, 0, gen.integer(draw, 1, 10**6)])}


def build(case):
    from bob.learn.em import GMMMachine

    p = case["p"]
    kw = dict(convergence_threshold=case["thr"], max_fitting_steps=case["cap"], update_means=case["upd"][0],
              update_variances=case["upd"][1], update_weights=case["upd"][2],
              mean_var_update_threshold=case["count_floor"])
    prior = None
    if case["map"]:
        prior = sut.make_gmm(p)
        g = GMMMachine(p["C"], trainer="map", ubm=prior, map_relevance_factor=case["relevance"],
                       map_alpha=case["alpha"], **kw)
    else:
        g = sut.make_gmm(p, trainer="ml", **kw)
    positive_floor = bool((np.asarray(p["floors"]) > 0).all())
    if case["pre_steps"] and positive_floor:
        cap = g.max_fitting_steps
        g.max_fitting_steps = int(case["pre_steps"])
        thr = g.convergence_threshold
        g.convergence_threshold = None
        g.fit(case["X"])
        g.max_fitting_steps, g.convergence_threshold = cap, thr
    if case.get("own_params"):
        # a reachable state: the machine's own means / variances / weights were assigned through the public setters (or
        # come from an earlier training with other switches) and differ from its UBM's, whatever its switches say now
        r = np.random.default_rng(int(case["own_params"]))
        g.means = np.array(g.means, dtype=float) + np.sqrt(np.array(p["variances"], dtype=float)) * r.normal(0, 0.5, np.shape(g.means))
        g.variances = np.array(g.variances, dtype=float) * np.exp(r.uniform(0.1, 1.0, np.shape(g.variances)))
        w = np.array(g.weights, dtype=float) * np.exp(r.uniform(-0.5, 0.5, np.shape(g.weights)))
        g.weights = w / w.sum()
    return g, prior, positive_floor


def save_to(obj, path, how):
    import h5py

    if how == "path":
        obj.save(path)
    else:
        with h5py.File(path, "w") as f:
            obj.save(f)


SETTINGS = ("trainer", "max_fitting_steps", "convergence_threshold", "update_means", "update_variances", "update_weights")


@REG.obligation("machine_round_trip_and_continued_training", g_machine, quick=450, thorough=9000)
def c_machine(ctx, case):
    """A reloaded machine is bit-identical, carries every recorded setting and trains identically from then on."""
    import h5py

    from bob.learn.em import GMMMachine

    g, prior, positive_floor = build(case)
    tmp = Tmp()
    try:
        cur = g
        first_dump = None
        for trip in range(case["trips"]):
            path = tmp.new()
            save_to(cur, path, case["save_as"])
            d = dump(path)
            if first_dump is None:
                first_dump = d
            else:
                diff = same_dump(first_dump, d)
                ctx.check(diff is None, "file written by the reloaded machine differs from the first file: %s" % diff,
                          "resave-differs")
            fh = None
            src = path
            if case["read_as"] == "file":
                fh = h5py.File(path, "r")
                src = fh
            try:
                if case["how"] == "from_hdf5":
                    nxt = GMMMachine.from_hdf5(src, ubm=prior)
                else:
                    if case["map"]:
                        nxt = GMMMachine(case["p"]["C"], trainer="map", ubm=prior)
                    else:
                        nxt = GMMMachine(int(case["C2"]), convergence_threshold=0.5, max_fitting_steps=77,
                                         update_variances=not case["upd"][1])
                        nxt.means = np.zeros((int(case["C2"]), 2))
                        nxt.variances = np.ones((int(case["C2"]), 2))
                    nxt.load(src)
            finally:
                if fh is not None:
                    fh.close()
            cur = nxt
        h = cur
        for name in ("weights", "means", "variances"):
            a, b = np.asarray(getattr(g, name)), np.asarray(getattr(h, name))
            ctx.check(a.shape == b.shape and np.array_equal(a, b) and a.dtype == b.dtype,
                      "%s not bit-identical after reload (max |diff| %r)" % (name, float(np.abs(a - b).max()) if a.shape == b.shape else "shape"),
                      "not-bit-identical:" + name)
        ta = np.broadcast_to(np.asarray(g.variance_thresholds, float), np.shape(g.variances))
        tb = np.broadcast_to(np.asarray(h.variance_thresholds, float), np.shape(h.variances))
        ctx.check(np.array_equal(ta, tb), "variance thresholds changed by the round trip", "not-bit-identical:floors")
        ctx.check(bool(h == g) and bool(g == h), "reloaded machine is not equal to the saved one under ==", "not-equal")
        la, lb = np.asarray(g.log_likelihood(case["probe"])), np.asarray(h.log_likelihood(case["probe"]))
        ctx.check(np.array_equal(la, lb), "reloaded machine scores the probe differently", "scores-differ")
        for s in SETTINGS:
            va, vb = getattr(g, s), getattr(h, s)
            if isinstance(vb, bytes):
                vb_cmp = vb
            else:
                vb_cmp = vb
            ok = (va == vb_cmp) and (not isinstance(vb, bytes))
            ctx.check(bool(ok), "recorded setting %s came back as %r instead of %r" % (s, vb, va), "setting:" + s)
        # continue training: unrecorded settings are copied across first
        steps = None
        if positive_floor:
            for s in ("map_relevance_factor", "map_alpha", "mean_var_update_threshold", "random_state"):
                setattr(h, s, getattr(g, s))
            X = case["X"]
            g.fit(X)
            h.fit(X)
            for name in ("weights", "means", "variances"):
                a, b = np.asarray(getattr(g, name), float), np.asarray(getattr(h, name), float)
                same = a.shape == b.shape and np.array_equal(a, b)
                if not same:
                    ctx.fail("continued training diverged: %s differ by %.3g after fit (trainer %s, threshold %r, cap %r)"
                             % (name, float(np.abs(a - b).max()) if a.shape == b.shape else np.nan,
                                g.trainer, case["thr"], case["cap"]), "training-diverged")
            # how many steps did the continued training run? (for the non-triviality rule)
            import copy

            probe_m = copy.deepcopy(h)
        nondefault = case["map"] or case["thr"] != 1e-5 or case["cap"] != 200 or case["upd"] != [True, False, False]
        ctx.note(bool(nondefault and positive_floor and case["cap"] >= 2), "map" if case["map"] else "ml",
                 "save:" + case["save_as"], "read:" + case["read_as"], "how:" + case["how"], "trips=%d" % case["trips"],
                 "floor:" + case["p"]["floor_kind"], "pre_steps=%d" % case["pre_steps"])
    finally:
        tmp.cleanup()


def g_stats(draw):
    C, F = gen.dims(draw, maxC=5, maxF=4)
    r = gen.rng(draw)
    kind = gen.choice(draw, ["frac", "frames", "zero", "frac"])
    if kind == "zero":
        s = {"t": 0, "n": np.zeros(C), "sum_px": np.zeros((C, F)), "sum_pxx": np.zeros((C, F)), "log_likelihood": 0.0}
    else:
        s = gen.fractional_stats(draw, C, F, r.normal(0, 3, (C, F)), np.exp(r.uniform(-2, 2, (C, F))), r=r,
                                 zero_prob=gen.choice(draw, [0.0, 0.5]))
        s["log_likelihood"] = float(r.normal(-50, 30))
        if kind == "frames":
            s["n"] = np.round(s["n"])
    return {"s": s, "save_as": gen.choice(draw, ["path", "file"]), "read_as": gen.choice(draw, ["path", "file"]),
            "how": gen.choice(draw, ["from_hdf5", "load"]), "C2": gen.integer(draw, 1, 5), "F2": gen.integer(draw, 1, 4),
            "trips": gen.integer(draw, 1, 3)}


@REG.obligation("stats_round_trip", g_stats, quick=400, thorough=8000)
def c_stats(ctx, case):
    """GMMStats survive save / from_hdf5 / load (into another shape) bit for bit."""
    import h5py

    from bob.learn.em import GMMStats

    s0 = sut.make_stats(case["s"])
    tmp = Tmp()
    try:
        cur = s0
        first = None
        for _ in range(case["trips"]):
            path = tmp.new()
            save_to(cur, path, case["save_as"])
            d = dump(path)
            if first is None:
                first = d
            else:
                diff = same_dump(first, d)
                ctx.check(diff is None, "statistics file re-written after reload differs: %s" % diff, "resave-differs")
            fh = None
            src = path
            if case["read_as"] == "file":
                fh = h5py.File(path, "r")
                src = fh
            try:
                if case["how"] == "from_hdf5":
                    nxt = GMMStats.from_hdf5(src)
                else:
                    nxt = GMMStats(int(case["C2"]), int(case["F2"]))
                    nxt.n = nxt.n + 3.0
                    nxt.t = 5
                    nxt.load(src)
            finally:
                if fh is not None:
                    fh.close()
            cur = nxt
        C, F = s0.sum_px.shape
        ctx.note(True, "save:" + case["save_as"], "read:" + case["read_as"], "how:" + case["how"],
                 "same-shape" if (case["C2"], case["F2"]) == (C, F) else "other-shape")
        ctx.check(int(cur.t) == int(s0.t), "t came back as %r instead of %r" % (cur.t, s0.t), "t")
        ctx.check(float(cur.log_likelihood) == float(s0.log_likelihood), "log_likelihood changed", "log_likelihood")
        for f in ("n", "sum_px", "sum_pxx"):
            a, b = np.asarray(getattr(s0, f)), np.asarray(getattr(cur, f))
            ctx.check(a.shape == b.shape and np.array_equal(a, b), "%s not bit-identical after reload" % f,
                      "not-bit-identical:" + f)
        ctx.check(bool(cur == s0) and bool(s0 == cur), "reloaded statistics not equal under ==", "not-equal")
        ctx.check((int(cur.n_gaussians), int(cur.n_features)) == (C, F), "shape attributes (%r, %r)" % (cur.n_gaussians, cur.n_features), "shape")
        # the reloaded object must keep working as a statistics container
        tot = cur + s0
        ctx.check(np.array_equal(np.asarray(tot.n), 2 * np.asarray(s0.n)) and int(tot.t) == 2 * int(s0.t),
                  "reloaded statistics do not add up", "add")
    finally:
        tmp.cleanup()


def g_legacy(draw):
    C, F = gen.dims(draw, maxC=4, maxF=3)
    C = gen.choice(draw, [C, C, 11, 12, 25])
    p = gen.gmm_params(draw, C, F, kmax=5.0)
    p["floors"] = np.broadcast_to(np.asarray(p["floors"], float), (C, F)).copy()
    r = gen.rng(draw)
    probe, _ = gen.data_from(draw, p, gen.integer(draw, 1, 6), kind="bulk", r=r)
    st = gen.fractional_stats(draw, C, F, p["means"], p["variances"], r=r, zero_prob=gen.choice(draw, [0.0, 0.5]))
    st["log_likelihood"] = float(r.normal(-20, 10))
    other = {"convergence_threshold": gen.choice(draw, [1e-2, 0.0, 0.3, 1e-8]), "max_fitting_steps": gen.choice(draw, [7, 0, 1, 33]),
             "update_means": gen.boolean(draw), "update_variances": gen.boolean(draw), "update_weights": gen.boolean(draw)}
    return {"p": p, "probe": probe, "stats": st, "flat": gen.boolean(draw), "other": other}


@REG.obligation("legacy_files_equal_current_format", g_legacy, quick=250, thorough=4000)
def c_legacy(ctx, case):
    """A legacy-layout file loads to the same model / statistics as its current-format counterpart."""
    import h5py

    from bob.learn.em import GMMMachine, GMMStats

    p = case["p"]
    C, F = p["C"], p["F"]
    tmp = Tmp()
    try:
        ctx.note(C >= 2, "flat" if case["flat"] else "shaped")
        legacy = tmp.new()
        with h5py.File(legacy, "w") as h:
            h["m_n_gaussians"] = np.array([C], dtype=np.int64)
            h["m_n_inputs"] = np.array([F], dtype=np.int64)
            h["m_weights"] = np.asarray(p["weights"]).reshape((1, C) if case["flat"] else (C,))
            for i in range(C):
                grp = h.create_group("m_gaussians%d" % i)
                grp["m_mean"] = p["means"][i]
                grp["m_variance"] = p["variances"][i]
                grp["m_variance_thresholds"] = p["floors"][i]
                grp["m_n_inputs"] = np.array([F], dtype=np.int64)
                grp["g_norm"] = np.array([0.0])
        current = tmp.new()
        g = sut.make_gmm(p)
        g.save(current)
        a = GMMMachine.from_hdf5(legacy)
        b = GMMMachine.from_hdf5(current)
        # what a file loads to is a function of the file: reading another machine file in between (one that records
        # other training settings) changes nothing about a second reading of the legacy file
        other = tmp.new()
        sut.make_gmm(p, **case.get("other", {})).save(other)
        GMMMachine.from_hdf5(other)
        a2 = GMMMachine.from_hdf5(legacy)
        names = ("trainer", "convergence_threshold", "max_fitting_steps", "update_means", "update_variances", "update_weights")
        for nm in names:
            ctx.check(getattr(a, nm) == getattr(a2, nm), "legacy file read again after another machine file: %s is %r, was %r"
                      % (nm, getattr(a2, nm), getattr(a, nm)), "legacy:reread:" + nm)
        ctx.check(bool(a == a2), "legacy file read twice gives unequal machines", "legacy:reread:eq")
        # both files read with a UBM argument (callers that handle MAP and ML files alike always pass one): still the
        # same model with the same trainer kind, training on in the same way
        u = sut.make_gmm(dict(p, means=np.asarray(p["means"]) + np.sqrt(np.asarray(p["variances"]))))
        au, bu = GMMMachine.from_hdf5(legacy, ubm=u), GMMMachine.from_hdf5(current, ubm=u)
        ctx.check(au.trainer == bu.trainer, "read with a UBM argument: legacy trainer %r, counterpart %r" % (au.trainer, bu.trainer),
                  "legacy:ubm:trainer")
        for name in ("weights", "means", "variances"):
            ctx.check(np.array_equal(np.asarray(getattr(au, name)), np.asarray(getattr(bu, name))),
                      "read with a UBM argument: legacy %s differ from the counterpart's" % name, "legacy:ubm:" + name)
        if np.all(p["floors"] > 0) and len(case["probe"]) >= 2:
            for m_ in (au, bu):
                m_.max_fitting_steps, m_.convergence_threshold = 1, None
                m_.update_means, m_.update_variances, m_.update_weights = True, True, True
                m_.fit(case["probe"])
            for name in ("weights", "means", "variances"):
                ctx.check(np.array_equal(np.asarray(getattr(au, name)), np.asarray(getattr(bu, name)), equal_nan=True),
                          "read with a UBM argument, one more EM step: legacy %s differ from the counterpart's" % name,
                          "legacy:ubm:fit:" + name)
        for name in ("weights", "means", "variances"):
            x, y = np.asarray(getattr(a, name)), np.asarray(getattr(b, name))
            ctx.check(x.shape == y.shape and np.array_equal(x, y), "legacy %s differ from the current-format counterpart" % name,
                      "legacy:" + name)
        ctx.check(np.array_equal(np.broadcast_to(np.asarray(a.variance_thresholds, float), (C, F)), p["floors"]),
                  "legacy variance thresholds", "legacy:floors")
        ctx.check(np.array_equal(np.asarray(a.log_likelihood(case["probe"])), np.asarray(b.log_likelihood(case["probe"]))),
                  "legacy machine scores differently", "legacy:scores")
        ctx.check(bool(a == b), "legacy machine != current-format machine", "legacy:eq")
        # statistics
        s = case["stats"]
        legacy_s = tmp.new()
        with h5py.File(legacy_s, "w") as h:
            h["n_gaussians"] = np.int64(C)
            h["n_inputs"] = np.int64(F)
            h["log_liklihood"] = float(s["log_likelihood"])
            h["T"] = np.int64(s["t"])
            h["n"] = np.asarray(s["n"]).reshape((1, C) if case["flat"] else (C,))
            h["sumPx"] = np.asarray(s["sum_px"]).reshape((C * F,) if case["flat"] else (C, F))
            h["sumPxx"] = np.asarray(s["sum_pxx"]).reshape((C * F,) if case["flat"] else (C, F))
        so = sut.make_stats(s)
        cur_s = tmp.new()
        so.save(cur_s)
        sa = GMMStats.from_hdf5(legacy_s)
        sb = GMMStats.from_hdf5(cur_s)
        ctx.check(bool(sa == sb) and int(sa.t) == int(sb.t), "legacy statistics differ from the current-format counterpart",
                  "legacy:stats")
        for f in ("n", "sum_px", "sum_pxx"):
            ctx.check(np.asarray(getattr(sa, f)).shape == np.asarray(getattr(sb, f)).shape, "legacy statistics %s shape" % f,
                      "legacy:stats-shape")
    finally:
        tmp.cleanup()
