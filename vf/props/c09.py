"""C09 — each JFA training phase is exact EM: its marginal likelihood never decreases."""
import numpy as np

from vf import gen, ref, sut
from vf.runner import Registry

REG = Registry(
    "C09",
    rule=(
        "Hypothesis draws a UBM, 2..5 classes with 1..4 sessions each (fractional counts, some zero-count "
        "components, labels in shuffled order), ranks 1..3, initial U, V, D set explicitly (relative scales "
        "1e-2..1e1) or drawn from random_state, and 1..6 EM iterations. The public per-phase steps "
        "(e_step_v/m_step_v, finalize_v, e_step_u/m_step_u, finalize_u, e_step_d/m_step_d) are driven in fit's "
        "order; after every M-step the phase's marginal log-likelihood 1/2 b'L^-1 b - 1/2 log|L| (latent factors "
        "integrated out, other subspaces and point estimates held fixed) is computed by an independent "
        "reference and must not decrease; shapes (C*F, rank) / (C*F,) and finiteness are checked; and "
        "JFAMachine.fit(em_iterations=k) must equal that composition of steps. Non-trivial: each phase's "
        "marginal strictly increases and some class has >=2 sessions with different counts."
    ),
    assumptions=["labels are a NumPy integer array with ids exactly 0..K-1",
                 "monotonicity tolerance 1e-9*(1+|value|)"],
)


def g_train(draw):
    c = gen.fa_case(draw, jfa=True, max_sessions=1)
    r = gen.rng(draw)
    K = gen.integer(draw, 2, 8 if gen.big() else 6)  # more classes than rank(V)+1 leave class-level residual for D
    per = [gen.integer(draw, 1, 4 if K <= 4 else 3) for _ in range(K)]
    labels = np.concatenate([np.full(n, i) for i, n in enumerate(per)]).astype(int)
    labels = labels[np.array(gen.permutation(draw, len(labels)))]
    p = c["ubm"]
    # class-dependent shift so that V has something to explain
    cls_shift = np.sqrt(p["variances"])[None] * r.normal(0, gen.choice(draw, [1.0, 1.0, 3.0]), (K,) + p["means"].shape)
    stats = []
    for lab in labels:
        st = gen.fractional_stats(draw, p["C"], p["F"], p["means"] + cls_shift[lab], p["variances"],
                                  n_frames=gen.integer(draw, 1, 12), r=r, zero_prob=gen.choice(draw, [0.0, 0.0, 0.3]))
        stats.append(st)
    stats = gen.share_counts(draw, stats, p["variances"], r)
    c["sessions"] = gen.revive_dead_components(stats, p["means"], p["variances"])
    c["y"] = labels
    c["em"] = gen.integer(draw, 1, 6 if gen.big() else 4)
    c["init_from_seed"] = gen.choice(draw, [False, False, True])
    c["seed"] = gen.integer(draw, 0, 9999)
    # the E-step of every phase may be split into one call per class (as fit does for Dask input) and the
    # list of partial accumulators handed to the M-step
    c["chunked"] = gen.choice(draw, [False, False, True])
    return c


def fresh(case):
    from bob.learn.em import JFAMachine

    if case["init_from_seed"]:
        ubm = sut.make_gmm(case["ubm"])
        return JFAMachine(r_U=case["U"].shape[1], r_V=case["V"].shape[1], ubm=ubm, random_state=case["seed"],
                          em_iterations=case["em"])
    return sut.make_fa(case, em_iterations=case["em"], random_state=case["seed"])


def classes_of(case):
    y = np.asarray(case["y"])
    out = []
    for i in range(int(y.max()) + 1):
        out.append([(np.asarray(s["n"], float), np.asarray(s["sum_px"], float))
                    for s, lab in zip(case["sessions"], y) if lab == i])
    return out


def check_mono(ctx, vals, phase):
    for k in range(len(vals) - 1):
        d = vals[k + 1] - vals[k]
        ctx.stat_max("largest decrease / (1+|value|) in phase " + phase, max(0.0, -d) / (1 + abs(vals[k])))
        if d < -1e-9 * (1 + abs(vals[k])):
            ctx.fail("%s-phase marginal likelihood fell from %.12g to %.12g at EM iteration %d"
                     % (phase, vals[k], vals[k + 1], k + 1), "marginal-decrease:" + phase)
    return any(vals[k + 1] - vals[k] > 1e-9 * (1 + abs(vals[k])) for k in range(len(vals) - 1))


@REG.obligation("phase_marginals_monotone_and_fit_is_their_composition", g_train, quick=700, thorough=9000,
                shard_size=40)
def c_train(ctx, case):
    """Drive the public per-phase steps; every M-step leaves the phase marginal equal or higher; fit == composition."""
    p = case["ubm"]
    y = np.asarray(case["y"])
    X = sut.sessions_of(case)
    classes = classes_of(case)
    CF = p["C"] * p["F"]
    m = fresh(case)
    n_classes = int(y.max()) + 1
    nspc = [int((y == i).sum()) for i in range(n_classes)]
    n_acc, f_acc = m.initialize(X, y, n_classes)
    mean, sig = p["means"].ravel(), p["variances"].ravel()
    rU, rV = case["U"].shape[1], case["V"].shape[1]

    def shapes():
        ctx.check(np.shape(m.V) == (CF, rV), "V shape %s" % (np.shape(m.V),), "shape")
        ctx.check(np.shape(m.U) == (CF, rU), "U shape %s" % (np.shape(m.U),), "shape")
        ctx.check(np.shape(m.D) == (CF,), "D shape %s" % (np.shape(m.D),), "shape")
        for name in "UVD":
            ctx.finite(getattr(m, name), name)

    chunked = bool(case.get("chunked"))
    per_class = [([x for x, lab in zip(X, y) if lab == i], y[y == i]) for i in range(n_classes)]

    def estep(fn, *args, **kw):
        if not chunked:
            return [fn(X, y, *args, **kw)]
        return [fn(Xi, yi, *args, **kw) for Xi, yi in per_class]

    # V phase
    vals = [ref.jfa_marginal_v(mean, sig, np.array(m.V), classes)]
    for _ in range(case["em"]):
        m.m_step_v(estep(m.e_step_v, nspc, n_acc, f_acc))
        shapes()
        vals.append(ref.jfa_marginal_v(mean, sig, np.array(m.V), classes))
    inc_v = check_mono(ctx, vals, "V")
    latent_y = m.finalize_v(X, y, nspc, n_acc, f_acc)
    ys = [np.asarray(latent_y[i], float) for i in range(n_classes)]
    # U phase
    vals = [ref.jfa_marginal_u(mean, sig, np.array(m.U), np.array(m.V), ys, classes)]
    for _ in range(case["em"]):
        m.m_step_u(estep(m.e_step_u, nspc, latent_y))
        shapes()
        vals.append(ref.jfa_marginal_u(mean, sig, np.array(m.U), np.array(m.V), ys, classes))
    inc_u = check_mono(ctx, vals, "U")
    latent_x = m.finalize_u(X, y, nspc, latent_y)
    xs = [np.asarray(latent_x[i], float) for i in range(n_classes)]
    # D phase
    vals = [ref.jfa_marginal_d(mean, sig, np.array(m.U), np.array(m.V), np.array(m.D), ys, xs, classes)]
    for _ in range(case["em"]):
        m.m_step_d(estep(m.e_step_d, nspc, latent_x, latent_y, n_acc, f_acc))
        shapes()
        vals.append(ref.jfa_marginal_d(mean, sig, np.array(m.U), np.array(m.V), np.array(m.D), ys, xs, classes))
    inc_d = check_mono(ctx, vals, "D")

    multi = any(len({round(float(n.sum()), 9) for n, _ in sess}) >= 2 for sess in classes)
    ctx.note(inc_v and inc_u and inc_d and multi, "init:seed" if case["init_from_seed"] else "init:explicit",
             "em=%d" % case["em"], "unsorted-labels" if list(y) != sorted(y) else "sorted-labels",
             "per-class-e-steps" if chunked else "whole-set-e-step",
             "multi-session-class" if multi else None)

    # fit == the same composition.  U, V, D live in feature units: entries far below 1e-12 of the spread of the
    # features (a D that collapsed to 1e-25, say) are rounding noise whose digits the order of the additions decides
    unit = float(np.sqrt(np.mean(np.asarray(case["ubm"]["variances"], float))))
    f = fresh(case)
    f.fit(X, y)
    for name in "VUD":
        a, b = np.asarray(getattr(f, name), float), np.asarray(getattr(m, name), float)
        # the per-class composition adds the accumulators in another order than fit's single E-step: re-association
        # tolerance as for the other list-vs-partitioned comparisons (C04, C12); the same order must agree to 1e-9
        ctx.close(a, b, "fit(em_iterations=%d) %s vs composition of public steps" % (case["em"], name),
                  rtol=1e-7 if chunked else 1e-9, atol=(1e-9 if chunked else 1e-11) * (np.abs(b).max() + 1e-300) + 1e-12 * unit)

    # a second fit() on the SAME object continues from the U, V, D it holds and from nothing else: a fresh machine
    # that is given those matrices and trained once ends in the same place
    start = {name: np.array(getattr(f, name), dtype=float) for name in "UVD"}
    f.fit(X, y)
    g = sut.make_fa(dict(case, U=start["U"], V=start["V"], D=start["D"]), em_iterations=case["em"], random_state=case["seed"])
    g.fit(X, y)
    for name in "VUD":
        a, b = np.asarray(getattr(f, name), float), np.asarray(getattr(g, name), float)
        ctx.close(a, b, "second fit on the same machine, %s vs a fresh machine started from the first fit's result" % name,
                  rtol=1e-9, atol=1e-11 * (np.abs(b).max() + 1e-300) + 1e-12 * unit)


@REG.obligation("fit_v_trajectory_monotone", g_train, quick=200, thorough=4000, shard_size=40)
def c_fit_v(ctx, case):
    """V after fit(em_iterations=k), k=1..K (same initial state): the V-phase marginal never decreases in k."""
    p = case["ubm"]
    y = np.asarray(case["y"])
    X = sut.sessions_of(case)
    classes = classes_of(case)
    mean, sig = p["means"].ravel(), p["variances"].ravel()
    base = fresh(case)
    vals = [ref.jfa_marginal_v(mean, sig, np.array(base.V), classes)]
    K = max(2, case["em"])
    for k in range(1, K + 1):
        c2 = dict(case, em=k)
        f = fresh(c2)
        f.fit(X, y)
        vals.append(ref.jfa_marginal_v(mean, sig, np.array(f.V), classes))
    inc = check_mono(ctx, vals, "V(fit)")
    ctx.note(inc, "K=%d" % K)


def g_array(draw):
    from vf.props import c11

    c = c11.g_fit(draw)
    c["jfa"] = True
    if c["V"] is None:
        r = gen.rng(draw)
        p = c["ubm"]
        c["V"] = np.sqrt(p["variances"]).ravel()[:, None] * r.normal(0, 1, (p["C"] * p["F"], gen.integer(draw, 1, 2)))
    c["dask"] = gen.choice(draw, [True, True, False])
    return c


@REG.obligation("array_entry_runs_the_same_phases", g_array, quick=80, thorough=1500, shard_size=14)
def c_array(ctx, case):
    """JFAMachine.fit_using_array (in memory, or on a row-chunked Dask array with tasks run in a generated order, with
    or without serialised copies) runs the same three phases as fit on the UBM statistics of the same arrays: same V,
    U and D.  Classes appear in any order in the rows."""
    import dask.array as da

    from vf import sched

    X, y = case["X"], np.asarray(case["y"])
    a = sut.make_fa(case, em_iterations=case["em"])
    b = sut.make_fa(case, em_iterations=case["em"])
    first_seen = list(dict.fromkeys(y.tolist()))
    ctx.note(first_seen != sorted(first_seen), "dask" if case["dask"] else "numpy",
             "classes-first-seen-out-of-order" if first_seen != sorted(first_seen) else "classes-first-seen-in-order",
             "equal-class-sizes" if len(set(np.bincount(y).tolist())) == 1 else "unequal-class-sizes")
    if case["dask"]:
        chunks = (tuple(case["chunks"]),) + tuple((s,) for s in X.shape[1:])
        with sched.owned("random", int(case.get("order_seed", 0)), bool(case.get("isolate", False))):
            a.fit_using_array(da.from_array(X, chunks=chunks), y)
    else:
        a.fit_using_array(X, y)
    b.fit(b.ubm.transform(X), y)
    for name in "VUD":
        ga, gb = np.asarray(getattr(a, name), float), np.asarray(getattr(b, name), float)
        ctx.finite(ga, name)
        ctx.close(ga, gb, "fit_using_array %s vs fit on the statistics of the same arrays" % name, rtol=1e-7,
                  atol=1e-9 * (np.abs(gb).max() + 1e-300) + 1e-12 * float(np.sqrt(np.mean(np.asarray(case["ubm"]["variances"], float)))))
