"""C12 — training from statistics is independent of bag partitioning and scheduling."""
import numpy as np

from vf import gen, sched, sut
from vf.runner import Registry

REG = Registry(
    "C12",
    rule=(
        "Hypothesis draws 3..14 labelled statistics (2..4 classes, labels in generated — usually unsorted — "
        "order), a bag layout (npartitions 1..n via from_sequence, or explicit uneven partition sizes including "
        "single-element and EMPTY partitions via from_delayed), an execution-order policy and isolate in "
        "{False, True} for the harness-owned executor, and an estimator in {ISV, JFA, i-vector}. Oracle: "
        "differential against fit on the in-memory list (U; U,V,D; T,sigma with the global seed fixed); "
        "'exactly once' is additionally attacked metamorphically: duplicating one item in the bag must change the "
        "model exactly as duplicating it in the list does. One obligation enumerates EVERY partition count 1..n "
        "(odd and even lengths exercise both branches of the pairwise reduction). Non-trivial: >=3 partitions, a "
        "partition mixing classes, labels unsorted."
    ),
    assumptions=["labels are NumPy integer arrays with ids exactly 0..K-1", "re-association tolerance 1e-7 relative"],
)


def g_items(draw, max_items=None):
    c = gen.fa_case(draw, max_sessions=1, maxC=2, maxF=2)
    r = gen.rng(draw)
    K = gen.integer(draw, 2, 4)
    n = gen.integer(draw, max(3, K), max_items or (26 if gen.big() else gen.choice(draw, [10, 10, 20])))
    labels = np.concatenate([np.arange(K), r.integers(0, K, n - K)]).astype(int)
    labels = labels[np.array(gen.permutation(draw, n))]
    p = c["ubm"]
    shift = np.sqrt(p["variances"])[None] * r.normal(0, 1, (K,) + p["means"].shape)
    c["sessions"] = [gen.fractional_stats(draw, p["C"], p["F"], p["means"] + shift[lab], p["variances"],
                                          n_frames=gen.integer(draw, 1, 10), r=r,
                                          zero_prob=gen.choice(draw, [0.0, 0.0, 0.3])) for lab in labels]
    c["y"] = labels
    c["sessions"] = gen.share_counts(draw, c["sessions"], p["variances"], r)
    gen.revive_dead_components(c["sessions"], p["means"], p["variances"])
    c["estimator"] = gen.choice(draw, ["isv", "jfa", "ivector"])
    c["jfa"] = c["estimator"] == "jfa"
    if c["jfa"] and c["V"] is None:
        c["V"] = np.sqrt(p["variances"]).ravel()[:, None] * r.normal(0, 1, (p["C"] * p["F"], gen.integer(draw, 1, 2)))
    c["em"] = gen.choice(draw, [1, 2, 3, 2, 5, 6])  # also enough iterations for anything done "every n-th iteration"
    c["pre_use"] = gen.choice(draw, ["none", "none", "enroll", "fit"])
    c["np_seed"] = gen.integer(draw, 0, 9999)
    c["dim_t"] = gen.integer(draw, 1, 3)
    # accepted by the constructor (and documented as ignored): must not make the bag differ from the list
    c["iv_threshold"] = gen.choice(draw, [None, None, 1e-12, 1e-3])
    return c


def layout(draw, n):
    kind = gen.choice(draw, ["from_sequence", "from_delayed", "from_delayed", "mapped"])
    if kind in ("from_sequence", "mapped"):
        # "mapped": the elements are produced lazily (from_sequence(...).map(...)), as when statistics are computed
        # inside the bag; a partition is then a one-shot iterator, not a list
        return {"kind": kind, "npartitions": gen.integer(draw, 1, n)}
    sizes = gen.composition(draw, n, max_parts=gen.choice(draw, [7, 7, None]))
    # sprinkle empty partitions
    out = []
    for s in sizes:
        if gen.choice(draw, [False, False, False, True]):
            out.append(0)
        out.append(s)
    if gen.choice(draw, [False, True]):
        out.append(0)
    return {"kind": kind, "sizes": out}


class _Getter:
    """Picklable element producer for lazily built bags."""

    def __init__(self, items):
        self.items = items

    def __call__(self, i):
        return self.items[int(i)]


def make_bag(stats, lay):
    import dask
    import dask.bag as db

    if lay["kind"] == "from_sequence":
        return db.from_sequence(stats, npartitions=int(lay["npartitions"]))
    if lay["kind"] == "mapped":
        return db.from_sequence(list(range(len(stats))), npartitions=int(lay["npartitions"])).map(_Getter(stats))
    parts, i = [], 0
    for s in lay["sizes"]:
        parts.append(dask.delayed(list)(stats[i:i + s]))
        i += s
    return db.from_delayed(parts)


def partition_sizes(lay, n):
    if lay["kind"] == "from_delayed":
        return list(lay["sizes"])
    lay = dict(lay, kind="from_sequence")
    import dask.bag as db

    b = db.from_sequence(list(range(n)), npartitions=int(lay["npartitions"]))
    return [len(p) for p in b.map_partitions(lambda x: [list(x)]).compute(scheduler="synchronous")]


def train(case, data, y):
    from bob.learn.em import IVectorMachine

    if case["estimator"] == "ivector":
        ubm = sut.make_gmm(case["ubm"])
        np.random.seed(case["np_seed"])
        m = IVectorMachine(ubm, dim_t=case["dim_t"], max_iterations=case["em"], update_sigma=True,
                           convergence_threshold=case.get("iv_threshold"))
        m.fit(data)
        return {"T": np.asarray(m.T, float), "sigma": np.asarray(m.sigma, float)}
    m = sut.make_fa(case, em_iterations=case["em"])
    pre = case.get("pre_use", "none")
    if pre == "enroll":
        m.enroll([sut.make_stats(s) for s in case["sessions"][:2]])
    elif pre == "fit":
        m.fit([sut.make_stats(s) for s in case["sessions"]], np.asarray(case["y"]))
    m.fit(data, y)
    out = {"U": np.asarray(m.U, float)}
    if case["jfa"]:
        out["V"] = np.asarray(m.V, float)
        out["D"] = np.asarray(m.D, float)
    return out


def compare(ctx, got, want, what, case=None):
    # trained matrices live in feature units: entries far below 1e-12 of the spread of the features (a JFA D that
    # collapsed to 1e-25, say) are rounding noise whose digits depend on the order of the additions
    unit = float(np.sqrt(np.mean(np.asarray(case["ubm"]["variances"], float)))) if case is not None and "ubm" in case else 0.0
    for k in want:
        ctx.finite(got[k], k)
        ctx.close(got[k], want[k], "%s %s" % (k, what), rtol=1e-7,
                  atol=1e-9 * (np.abs(want[k]).max() + 1e-300) + (1e-12 * unit if k in ("U", "V", "D") else 0.0))


def g_bag(draw):
    c = g_items(draw)
    c["layout"] = layout(draw, len(c["sessions"]))
    c["sched"] = {"order": gen.choice(draw, ["random", "lifo", "fifo", "random"]), "seed": gen.integer(draw, 0, 2**16),
                  "isolate": gen.boolean(draw)}
    c["dup"] = gen.integer(draw, 0, len(c["sessions"]) - 1)
    return c


@REG.obligation("bag_equals_list", g_bag, quick=160, thorough=4000, shard_size=20)
def c_bag(ctx, case):
    """fit(dask.bag) == fit(list) for every partitioning, task order and isolation mode; duplicates count twice."""
    y = np.asarray(case["y"])
    stats = sut.sessions_of(case)
    n = len(stats)
    want = train(case, stats, y)
    s = case["sched"]
    with sched.owned(s["order"], s["seed"], s["isolate"]) as ex:
        got = train(case, make_bag(stats, case["layout"]), y)
    sizes = partition_sizes(case["layout"], n)
    mixes, i = False, 0
    for sz in sizes:
        if len(set(y[i:i + sz].tolist())) >= 2:
            mixes = True
        i += sz
    nonempty = [sz for sz in sizes if sz]
    ctx.note(len(nonempty) >= 3 and mixes and list(y) != sorted(y), "est:" + case["estimator"],
             "layout:" + case["layout"]["kind"], "empty-partition" if 0 in sizes else None,
             "single-element-partition" if 1 in sizes else None, "odd-partitions" if len(sizes) % 2 else "even-partitions",
             "isolate" if s["isolate"] else "shared", "order:" + s["order"])
    compare(ctx, got, want, "(bag vs list)", case=case)
    ctx.stat_max("tasks per fit", ex.tasks_run)
    # exactly once: a duplicated item must count twice, in the bag as in the list
    j = int(case["dup"])
    stats2 = sut.sessions_of(case) + [sut.make_stats(case["sessions"][j])]
    y2 = np.concatenate([y, y[j:j + 1]])
    want2 = train(case, stats2, y2)
    lay2 = dict(case["layout"])
    if lay2["kind"] == "from_delayed":
        lay2["sizes"] = list(lay2["sizes"]) + [1]
    with sched.owned(s["order"], s["seed"] + 1, s["isolate"]):
        got2 = train(case, make_bag(stats2, lay2), y2)
    compare(ctx, got2, want2, "(bag vs list, one item duplicated)", case=case)
    moved = max(float(np.abs(want2[k] - want[k]).max() / (np.abs(want[k]).max() + 1e-300)) for k in want)
    ctx.stat_max("relative change caused by the duplicate", moved)
    # the SAME bag object trained from twice in one process, the second time with another assignment of the items to
    # the classes: each training equals the list training with the labels it was given
    if case["estimator"] != "ivector":
        y3 = np.roll(y, 1)
        if (y3 != y).any():
            ctx.event("same-bag-two-labellings")
            bag = make_bag(stats, case["layout"])
            with sched.owned(s["order"], s["seed"] + 2, s["isolate"]):
                first = train(case, bag, y)
                second = train(case, bag, y3)
            compare(ctx, first, want, "(bag vs list, first training from this bag)", case=case)
            compare(ctx, second, train(case, sut.sessions_of(case), y3), "(bag vs list, same bag trained again with other labels)", case=case)


def g_allparts(draw):
    c = g_items(draw, max_items=12 if gen.big() else 7)
    c["isolate"] = gen.boolean(draw)
    c["order_seed"] = gen.integer(draw, 0, 2**16)
    return c


@REG.obligation("every_partition_count", g_allparts, quick=24, thorough=400, shard_size=4)
def c_allparts(ctx, case):
    """Every number of partitions from 1 to n gives the in-memory model."""
    y = np.asarray(case["y"])
    stats = sut.sessions_of(case)
    n = len(stats)
    want = train(case, stats, y)
    ctx.note(True, "est:" + case["estimator"], "n=%d" % n, "isolate" if case["isolate"] else "shared")
    for npart in range(1, n + 1):
        with sched.owned("random", case["order_seed"] + npart, case["isolate"]):
            got = train(case, make_bag(stats, {"kind": "from_sequence", "npartitions": npart}), y)
        compare(ctx, got, want, "(bag with %d partitions vs list)" % npart, case=case)
        ctx.event("partition-counts-tried")
