"""C19 — training and scoring never modify or alias caller-owned data."""
import copy

import numpy as np

from vf import gen, sut
from vf.runner import Registry

REG = Registry(
    "C19",
    rule=(
        "Model-based history generation: Hypothesis draws a pool of caller-owned objects (frame arrays, label "
        "arrays, lists of statistics, a UBM / prior machine, initial centroids, offsets, a Dask array built over a "
        "NumPy buffer the harness keeps) and a sequence of 3..10 calls chosen among every public entry point "
        "(k-means / GMM ML / GMM MAP / ISV / JFA / i-vector / WCCN / whitening fit, fit_using_array, enroll, "
        "enroll_using_array, score, score_using_array, transform, project, acc_stats, log_likelihood, "
        "linear_scoring, statistics + and the right-hand side of +=), possibly repeating on the same objects. "
        "Invariants: (a) a byte-for-byte snapshot of every pool member is unchanged after each call; (b) "
        "repeating the call returns the same result; (c) aliasing probe after every training call: the private "
        "copies of the training data, the statistics' arrays, the k-means initial centroids and the MAP prior's "
        "arrays are overwritten with NaN and the model's parameters must not change (np.shares_memory is checked "
        "too). Non-trivial: the same object is passed to >= 2 different entry points and an aliasing probe ran."
    ),
    assumptions=["a UBM is never handed over untrained in this pool (that is the one documented case in which it is modified)"],
)

OPS = ["gmm_ml_fit", "kmeans_fit", "kmeans_use", "gmm_ml_fit", "gmm_map_fit", "ubm_stats", "stats_add", "linear_scoring", "fa_fit",
       "fa_fit_array", "fa_enroll", "fa_score", "isv_transform", "ivector_fit", "ivector_project", "wccn", "whitening",
       "kmeans_fit_zero_iter", "map_prior_alias"]


def g_pool(draw):
    # features in any unit: standard deviations from 1e-6 (variances of 1e-12) to 1e3
    c = gen.fa_case(draw, max_sessions=1, maxC=2, maxF=3, scale_lo=-6, scale_hi=3)
    r = gen.rng(draw)
    p = c["ubm"]
    C, F = p["C"], p["F"]
    n = gen.integer(draw, 2 * F + 6, 20)
    X, _ = gen.data_from(draw, p, n, kind="bulk", r=r)
    K = 2
    y = np.concatenate([np.arange(K), np.arange(K), r.integers(0, K, n - 2 * K)]).astype(int)
    y = y[np.array(gen.permutation(draw, n))]
    k = gen.choice(draw, [1, 2, 3, 3])
    init = X[r.choice(n, k, replace=False)] + np.sqrt(p["variances"]).mean(axis=0) * r.normal(0, 0.2, (k, F))
    n_st = gen.integer(draw, 3, 6)
    ylab = np.concatenate([np.arange(K), r.integers(0, K, n_st - K)]).astype(int)
    sessions = [gen.fractional_stats(draw, C, F, p["means"], p["variances"], n_frames=gen.integer(draw, 1, 8), r=r)
                for _ in range(n_st)]
    # statistics for the i-vector calls: optionally one component without any data in ANY of them
    iv_sessions = [dict((k_, np.array(v_, copy=True) if isinstance(v_, np.ndarray) else v_) for k_, v_ in s_.items()) for s_ in sessions]
    if C >= 2 and gen.choice(draw, [False, True]):
        dead = gen.integer(draw, 0, C - 1)
        for s_ in iv_sessions:
            for k_ in ("n", "sum_px", "sum_pxx"):
                s_[k_][dead] = 0.0
    c["iv_sessions"] = iv_sessions
    # fixed MAP ratios given per component as an array (caller-owned), and optionally a prior component so far from
    # the data that it receives no evidence
    c["alpha"] = r.uniform(0.1, 0.9, C)
    # initial mixture weights handed to the constructor of an ML machine (caller-owned; their float sum is 1 only up
    # to rounding)
    # a count floor ("at least N effective frames") that may exceed every component's count in the training set
    c["count_floor"] = gen.choice(draw, [float(np.finfo(float).eps)] * 3 + [1e3])
    wk = r.uniform(0.2, 1.0, k)
    wk = wk / wk.sum()
    if gen.boolean(draw):
        # weights as a person writes them: two decimals
        wk = np.round(wk, 2)
        wk[-1] = round(1.0 - float(wk[:-1].sum()), 2)
    elif gen.boolean(draw):
        # weights whose float sum is one ulp away from 1 (every normalisation by a float total can leave that)
        wk[0] = np.nextafter(wk[0], 0.0)
        wk[-1] = np.nextafter(wk[-1], 0.0)
    c["w_k"] = wk
    c["prior_far"] = gen.integer(draw, 0, C - 1) if (C >= 2 and gen.choice(draw, [True, True, True, False])) else None
    fa = sut.fa_ref(c)
    c.update(X=X, y=y, init=init, sessions=sessions, ylab=ylab, z=r.normal(0, 1, fa.CF),
             yy=(r.normal(0, 1, fa.rV) if c["jfa"] else None), offsets=np.sqrt(p["variances"]) * r.normal(0, 0.3, (C, F)),
             chunks=gen.composition(draw, n, max_parts=3), np_seed=gen.integer(draw, 0, 9999),
             upd=[bool(u) for u in gen.choice(draw, [(1, 1, 1), (1, 0, 0), (0, 1, 1), (1, 0, 1), (1, 0, 0)])])
    ops = [{"op": gen.choice(draw, OPS), "dask": gen.boolean(draw), "flag": gen.boolean(draw), "cold": gen.boolean(draw)}
           for _ in range(gen.integer(draw, 3, 10))]
    c["ops"] = ops
    return c


class Pool:
    """Caller-owned objects; everything the entry points receive comes from here."""

    def __init__(self, case):
        import dask.array as da

        from bob.learn.em import IVectorMachine

        self.case = case
        self.X = np.array(case["X"], dtype=float)
        self.Xbuf = np.array(case["X"], dtype=float)
        self.dX = da.from_array(self.Xbuf, chunks=(tuple(case["chunks"]), self.Xbuf.shape[1]))
        self.y = np.array(case["y"])
        self.ylist = [int(v) for v in case["y"]]
        self.ycol = np.array(case["y"]).reshape(-1, 1)
        self.init = np.array(case["init"], dtype=float)
        self.ubm = sut.make_gmm(case["ubm"])
        pp = dict(case["ubm"])
        if case.get("prior_far") is not None:
            pp["means"] = np.array(pp["means"], copy=True)
            j = int(case["prior_far"])
            pp["means"][j] = pp["means"][j] + 1e3 * np.sqrt(np.asarray(pp["variances"])[j])
        self.prior_params = pp
        self.prior = sut.make_gmm(pp)
        self.alpha = np.array(case.get("alpha", np.full(int(case["ubm"]["C"]), 0.5)), dtype=float)
        self.w_k = np.array(case.get("w_k", np.full(len(case["init"]), 1.0 / len(case["init"]))), dtype=float)
        self.stats = [sut.make_stats(s) for s in case["sessions"]]
        self.iv_stats = [sut.make_stats(s) for s in case.get("iv_sessions", case["sessions"])]
        self.ylab = np.array(case["ylab"])
        self.offsets = np.array(case["offsets"], dtype=float)
        self.z = np.array(case["z"], dtype=float)
        self.yy = None if case["yy"] is None else np.array(case["yy"], dtype=float)
        self.fa = sut.make_fa(case, em_iterations=1)
        self.models = np.array(case["ubm"]["means"])[None] + 0.1
        self.iv = IVectorMachine(self.ubm, dim_t=2, max_iterations=1)
        np.random.seed(case["np_seed"])
        self.iv.fit([sut.make_stats(s) for s in case["sessions"]])

    def members(self):
        out = {"X": self.X, "Xbuf": self.Xbuf, "y": self.y, "init": self.init, "ylab": self.ylab, "offsets": self.offsets,
               "z": self.z, "models": self.models, "ylist": np.array(self.ylist), "alpha": self.alpha, "ycol": self.ycol, "w_k": self.w_k}
        if self.yy is not None:
            out["yy"] = self.yy
        for name, g in (("ubm", self.ubm), ("prior", self.prior), ("fa.ubm", self.fa.ubm)):
            out[name + ".weights"], out[name + ".means"], out[name + ".variances"] = g.weights, g.means, g.variances
            out[name + ".floors"] = np.asarray(g.variance_thresholds, float)
        for i, s in enumerate(self.stats):
            out["stats[%d].n" % i], out["stats[%d].sum_px" % i], out["stats[%d].sum_pxx" % i] = s.n, s.sum_px, s.sum_pxx
            out["stats[%d].t_ll" % i] = np.array([s.t, s.log_likelihood], dtype=float)
        for i, s in enumerate(self.iv_stats):
            out["iv_stats[%d].n" % i], out["iv_stats[%d].sum_px" % i], out["iv_stats[%d].sum_pxx" % i] = s.n, s.sum_px, s.sum_pxx
        out["fa.U"], out["fa.D"] = self.fa.U, self.fa.D
        if self.case["jfa"]:
            out["fa.V"] = self.fa.V
        out["iv.T"], out["iv.sigma"] = self.iv.T, self.iv.sigma
        return out

    def snapshot(self):
        return {k: (np.asarray(v).tobytes(), np.asarray(v).shape) for k, v in self.members().items()}


def flat(res):
    """Canonical dict of float arrays for a result (arrays, lists, tuples, stats, scalars)."""
    out = {}

    def put(key, v):
        import dask

        if hasattr(v, "compute"):
            v = dask.compute(v)[0]
        if hasattr(v, "sum_pxx") and hasattr(v, "sum_px"):
            put(key + ".n", v.n), put(key + ".px", v.sum_px), put(key + ".pxx", v.sum_pxx)
            put(key + ".t", float(v.t)), put(key + ".ll", float(v.log_likelihood))
        elif isinstance(v, (list, tuple)):
            for i, e in enumerate(v):
                put("%s[%d]" % (key, i), e)
        elif isinstance(v, dict):
            for k2, e in v.items():
                put("%s.%s" % (key, k2), e)
        else:
            out[key] = np.asarray(v, dtype=float)

    put("r", res)
    return out


def model_arg(pool):
    return (pool.yy, pool.z) if pool.case["jfa"] else pool.z


def nan_out(*arrays):
    for a in arrays:
        if a.dtype.kind == "f":
            a[...] = np.nan
        else:
            a[...] = (a + 1) % max(int(a.max()) + 1, 2)  # label arrays: rotate the class ids


def run_op(pool, op):
    """-> (result, probe) ; probe() is an aliasing probe returning a list of (what, before, after, shares)."""
    from bob.learn.em import GMMMachine, IVectorMachine, ISVMachine, JFAMachine, KMeansMachine, WCCN, Whitening, linear_scoring

    case = pool.case
    name = op["op"]
    data = pool.dX if op["dask"] else pool.X
    k = pool.init.shape[0]
    probe = None

    def params(m, names):
        return {n_: np.array(getattr(m, n_), dtype=float, copy=True) for n_ in names}

    def make_probe(train, names, victims):
        def _p():
            m, owned = train()
            before = params(m, names)
            shares = [n_ for n_ in names for v in owned if np.shares_memory(np.asarray(getattr(m, n_)), v)]
            nan_out(*owned)
            after = params(m, names)
            return names, before, after, shares
        return _p

    if name in ("kmeans_fit", "kmeans_fit_zero_iter"):
        iters = 0 if name.endswith("zero_iter") else 2
        m = KMeansMachine(k, init_method=pool.init, max_iter=iters, convergence_threshold=None).fit(data)
        res = {"centroids": m.centroids_}

        def train():
            Xc, ic = pool.X.copy(), pool.init.copy()
            mm = KMeansMachine(k, init_method=ic, max_iter=iters, convergence_threshold=None).fit(Xc)
            return mm, [Xc, ic]
        probe = make_probe(train, ["centroids_"], None)
    elif name == "kmeans_use":
        m = KMeansMachine(k)
        m.centroids_ = pool.init
        v, w = m.get_variances_and_weights_for_each_cluster(data)
        res = {"transform": m.transform(data), "predict": m.predict(data), "v": v, "w": w}
    elif name == "gmm_ml_fit":
        def build(init_arr, w_arr=None):
            # the constructor's `weights=` array is an argument of the trainer like any other
            g = GMMMachine(k, max_fitting_steps=2, convergence_threshold=None, update_means=case["upd"][0],
                           update_variances=case["upd"][1], update_weights=case["upd"][2],
                           weights=pool.w_k if w_arr is None else w_arr)
            if op["flag"]:
                g.k_means_trainer = KMeansMachine(k, init_method=init_arr, max_iter=1, convergence_threshold=None)
            else:
                # assigning an array through the public setter stores that very object (plain attribute
                # semantics, the caller's own doing): hand over a copy, the probe is about what training does
                g.means = np.array(init_arr, copy=True)
            return g
        g = build(pool.init).fit(data)
        res = {"w": g.weights, "m": g.means, "v": g.variances}

        def train():
            Xc, ic, wc = pool.X.copy(), pool.init.copy(), pool.w_k.copy()
            return build(ic, wc).fit(Xc), [Xc, ic, wc]
        # weights that are neither initialised by k-means nor updated stay the object the constructor was given
        # (nothing was trained there); that the array keeps its bits is settled by the snapshot of the pool
        w_trained = bool(op["flag"]) or bool(case["upd"][2])
        probe = make_probe(train, (["weights"] if w_trained else []) + ["means", "variances"], None)
    elif name in ("gmm_map_fit", "map_prior_alias"):
        steps = 0 if name == "map_prior_alias" else 2

        def build(prior, alpha=None):
            kw = {}
            if op["flag"] or case.get("prior_far") is not None:
                # fixed adaptation ratios, one per component, handed over as the caller's array
                kw = dict(map_relevance_factor=None, map_alpha=pool.alpha if alpha is None else alpha)
            return GMMMachine(prior.n_gaussians, trainer="map", ubm=prior, max_fitting_steps=steps, convergence_threshold=None,
                              update_means=True, update_variances=False, update_weights=case["upd"][2],
                              mean_var_update_threshold=float(case.get("count_floor", np.finfo(float).eps)), **kw)
        g = build(pool.prior)
        if steps:
            g.fit(data)
        res = {"w": g.weights, "m": g.means, "v": g.variances}

        def train():
            pr = sut.make_gmm(pool.prior_params)
            Xc = pool.X.copy()
            ac = pool.alpha.copy()
            mm = build(pr, ac)
            if steps:
                mm.fit(Xc)
            owned = [Xc, pr.means, pr.variances, pr.weights] + ([ac] if (op["flag"] or case.get("prior_far") is not None) else [])
            if np.ndim(pr.variance_thresholds):
                owned.append(pr.variance_thresholds)
            return mm, owned
        probe = make_probe(train, ["weights", "means", "variances", "variance_thresholds"], None)
    elif name == "ubm_stats":
        res = {"acc": pool.ubm.acc_stats(data), "ll": pool.ubm.log_likelihood(data), "lwl": pool.ubm.log_weighted_likelihood(data),
               "tr": pool.ubm.transform([pool.X, pool.X[:2]])}
    elif name == "stats_add":
        a, b = pool.stats[0], pool.stats[1]
        c = copy.deepcopy(a)
        c += b
        from bob.learn.em import GMMStats

        acc = GMMStats(a.n_gaussians, a.n_features)
        for s_ in pool.stats:
            acc += s_
        shares = [f for f in ("n", "sum_px", "sum_pxx") for s_ in pool.stats if np.shares_memory(getattr(acc, f), getattr(s_, f))]
        if shares:
            raise AssertionError("ALIAS:accumulator shares %s with an addend" % shares)
        res = {"sum": a + b, "isum": c, "three": sum(pool.stats[1:], start=pool.stats[0]), "acc": acc}
    elif name == "linear_scoring":
        ubm = pool.ubm
        res = {"s": linear_scoring(pool.models, ubm, pool.stats, pool.offsets, op["flag"]),
               "s1": linear_scoring([pool.prior], ubm, pool.stats[0], 0, op["flag"])}
    elif name == "fa_fit":
        import dask.bag as db

        def build():
            if op.get("cold"):
                # a machine that draws its own starting matrices from its integer random_state
                from bob.learn.em import JFAMachine

                kw_ = dict(ubm=sut.make_gmm(case["ubm"]), em_iterations=1, random_state=int(case["np_seed"]))
                rU_ = np.asarray(case["U"]).shape[1]
                return JFAMachine(r_U=rU_, r_V=np.asarray(case["V"]).shape[1], **kw_) if case["jfa"] else ISVMachine(r_U=rU_, **kw_)
            return sut.make_fa(case, em_iterations=1)
        src = db.from_sequence(pool.stats, npartitions=2) if op["dask"] else pool.stats
        lab = pool.ylab if op["flag"] else pool.ylab.copy()
        m = build()
        m.fit(src, lab)
        res = {"U": m.U, "D": m.D, "V": m.V if case["jfa"] else 0.0}

        def train():
            st = [sut.make_stats(s) for s in case["sessions"]]
            yl = pool.ylab.copy()
            mm = build()
            mm.fit(st, yl)
            owned = [yl] + [a for s in st for a in (s.n, s.sum_px, s.sum_pxx)]
            return mm, owned
        probe = make_probe(train, ["U", "D"] + (["V"] if case["jfa"] else []), None)
    elif name == "fa_fit_array":
        # the caller's TRAINED UBM is handed to the machine; with the flag the (documented as ignored when a UBM is
        # given) ubm_kwargs are passed as well, as configuration-driven code does
        from bob.learn.em import JFAMachine

        kw = dict(em_iterations=1)
        if op["flag"]:
            kw["ubm_kwargs"] = dict(n_gaussians=int(case["ubm"]["C"]), max_fitting_steps=2, convergence_threshold=None,
                                    update_variances=True, update_weights=True)
        rU = np.asarray(case["U"]).shape[1]
        if case["jfa"]:
            m = JFAMachine(r_U=rU, r_V=np.asarray(case["V"]).shape[1], ubm=pool.ubm, **kw)
            m.V = np.array(case["V"], dtype=float)
        else:
            m = ISVMachine(r_U=rU, ubm=pool.ubm, **kw)
        m.U = np.array(case["U"], dtype=float)
        m.D = np.array(case["D"], dtype=float)
        # labels as the caller keeps them: a flat array, or an (N, 1) column (which the function flattens itself)
        m.fit_using_array(data, pool.ycol if op["dask"] else pool.y)
        res = {"U": m.U, "D": m.D}

        def train():
            Xc, yc = pool.X.copy(), pool.y.copy()
            mm = sut.make_fa(case, em_iterations=1)
            mm.fit_using_array(Xc, yc)
            return mm, [Xc, yc]
        probe = make_probe(train, ["U", "D"], None)
    elif name == "fa_enroll":
        pool.fa.enroll_iterations = 2
        res = {"e": pool.fa.enroll(pool.stats[:3]), "ea": pool.fa.enroll_using_array(pool.X)}
    elif name == "fa_score":
        res = {"s": pool.fa.score(model_arg(pool), pool.stats), "s1": pool.fa.score(model_arg(pool), pool.stats[:1]),
               "sa": pool.fa.score_using_array(model_arg(pool), [pool.X, pool.X[:3]]), "x": pool.fa.estimate_x(pool.stats),
               "ux": pool.fa.estimate_ux(pool.stats)}
    elif name == "isv_transform":
        m = ISVMachine(r_U=pool.fa.U.shape[1], ubm=pool.ubm)
        m.U = pool.fa.U
        m.D = pool.fa.D
        res = {"t": m.transform(pool.X)}
    elif name == "ivector_fit":
        np.random.seed(case["np_seed"])
        m = IVectorMachine(pool.ubm, dim_t=2, max_iterations=2, update_sigma=bool(op["flag"]))
        import dask.bag as db

        m.fit(db.from_sequence(pool.iv_stats, npartitions=2) if op["dask"] else pool.iv_stats)
        res = {"T": m.T, "sigma": m.sigma}

        def train():
            st = [sut.make_stats(s) for s in case.get("iv_sessions", case["sessions"])]
            ub = sut.make_gmm(case["ubm"])
            np.random.seed(case["np_seed"])
            mm = IVectorMachine(ub, dim_t=2, max_iterations=2, update_sigma=bool(op["flag"]))
            mm.fit(st)
            owned = [a for s in st for a in (s.n, s.sum_px, s.sum_pxx)] + [ub.variances]
            return mm, owned
        probe = make_probe(train, ["T", "sigma"], None)
    elif name == "ivector_project":
        res = {"p": pool.iv.project(pool.stats[0]), "t": pool.iv.transform(pool.stats)}
    elif name == "wccn":
        lab = pool.ylist if op["flag"] else pool.y
        w = WCCN().fit(data, lab)
        res = {"W": w.weights, "Y": np.array([np.asarray(v) for v in w.transform(pool.X)])}

        def train():
            Xc, yc = pool.X.copy(), pool.y.copy()
            ww = WCCN().fit(Xc, yc)
            return ww, [Xc, yc]
        probe = make_probe(train, ["weights"], None)
    elif pool.X.shape[1] < 2:
        # whitening a single feature is a refused degenerate shape (numpy.cov returns a 0-d array)
        res = {"skipped": 0.0}
    else:  # whitening
        w = Whitening().fit(data)
        res = {"W": w.weights, "sub": w.input_subtract, "Y": w.transform(pool.X)}

        def train():
            Xc = pool.X.copy()
            ww = Whitening().fit(Xc)
            return ww, [Xc]
        probe = make_probe(train, ["weights", "input_subtract"], None)
    return res, probe


@REG.obligation("inputs_untouched_results_repeatable_no_aliasing", g_pool, quick=260, thorough=6000, shard_size=44)
def c_pool(ctx, case):
    """No public entry point modifies caller-owned data; repeating a call gives the same result; trained parameters
    do not share memory with what they were trained from."""
    pool = Pool(case)
    used = {}
    probed = False
    for i, op in enumerate(case["ops"]):
        what = "call %d (%s%s)" % (i + 1, op["op"], ", dask" if op["dask"] else "")
        before = pool.snapshot()
        try:
            res, probe = run_op(pool, op)
        except AssertionError as e:
            if str(e).startswith("ALIAS:"):
                ctx.fail("%s: %s" % (what, str(e)[6:]), "aliasing:" + op["op"])
            raise
        first = flat(res)
        after = pool.snapshot()
        for k in before:
            if before[k] != after[k]:
                ctx.fail("%s modified caller-owned %s" % (what, k), "input-modified:" + op["op"])
        res2, _ = run_op(pool, op)
        second = flat(res2)
        for k in first:
            a, b = first[k], second.get(k)
            same = b is not None and a.shape == b.shape and np.array_equal(a, b, equal_nan=True)
            if not same:
                ctx.fail("%s: repeating the call changed result %s" % (what, k), "not-repeatable:" + op["op"])
        after2 = pool.snapshot()
        for k in before:
            if before[k] != after2[k]:
                ctx.fail("%s (second call) modified caller-owned %s" % (what, k), "input-modified:" + op["op"])
        if probe is not None:
            names, b4, aft, shares = probe()
            probed = True
            ctx.check(not shares, "%s: trained %s share memory with caller-owned arrays" % (what, shares), "aliasing:" + op["op"])
            for n_ in names:
                if not np.array_equal(b4[n_], aft[n_], equal_nan=True):
                    ctx.fail("%s: overwriting the inputs afterwards changed the model's %s" % (what, n_), "aliasing:" + op["op"])
        for obj in {"kmeans_fit": ["X", "init"], "kmeans_use": ["X", "init"], "gmm_ml_fit": ["X", "init"], "gmm_map_fit": ["X", "prior"],
                    "ubm_stats": ["X", "ubm"], "stats_add": ["stats"], "linear_scoring": ["stats", "ubm", "prior"],
                    "fa_fit": ["stats"], "fa_fit_array": ["X", "y"], "fa_enroll": ["stats", "X"], "fa_score": ["stats", "X"],
                    "isv_transform": ["X", "ubm"], "ivector_fit": ["stats", "ubm"], "ivector_project": ["stats"],
                    "wccn": ["X", "y"], "whitening": ["X"], "kmeans_fit_zero_iter": ["X", "init"],
                    "map_prior_alias": ["prior"]}[op["op"]]:
            used.setdefault(obj, set()).add(op["op"])
    shared = any(len(v) >= 2 for v in used.values())
    ctx.note(shared and probed, "jfa" if case["jfa"] else "isv", "ops=%d" % len(case["ops"]),
             *sorted({"op:" + o["op"] for o in case["ops"]}))
