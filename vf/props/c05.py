"""C05 — MAP adaptation interpolates between the prior model and the data by relevance."""
import pickle

import numpy as np

from vf import gen, ref, sut
from vf.runner import Registry

EPS = np.finfo(float).eps

REG = Registry(
    "C05",
    rule=(
        "Hypothesis draws a prior GMM (mixed scales, prior means away from 0/1), adaptation rows from a "
        "shifted mixture (optionally one prior component 1e3 sigma away so it gets exactly zero "
        "responsibility, single-row data), relevance factor log-uniform 1e-3..1e3 or a fixed ratio in "
        "[0,1], one of the 8 switch combinations, 1..6 iterations. Oracles: first iteration == reference "
        "Reynolds eqs. 11-13 on the prior's statistics (weights renormalised, no-evidence components keep "
        "the prior); r->1e12 returns the prior, r->1e-12 the ML M-step; means-only adaptation never "
        "decreases sum log p - r/2 sum (mu-mu0)^2/var; K iterations == reference trajectory; the prior "
        "machine is bit-for-bit untouched. Non-trivial: some component has 0.05 < alpha < 0.95 and the "
        "prior means differ from their squares."
    ),
    assumptions=[
        "known finding KF-1 (variance blend uses the prior mean where eq. 13 has its square) is recognised "
        "only by its exact wrong value; multi-iteration runs with update_variances are excluded while it is open",
    ],
)

COMBOS = [(1, 0, 0), (1, 1, 1), (0, 1, 0), (0, 0, 1), (1, 1, 0), (1, 0, 1), (0, 1, 1), (0, 0, 0)]


def g_case(draw, allow_var=True, max_rows=None):
    C, F = gen.dims(draw, maxC=4, maxF=3)
    r = gen.rng(draw)
    scales = gen.feature_scales(draw, F, lo=-2, hi=3)
    offs = gen.feature_offsets(draw, F, scales, kmax=10.0)
    prior = gen.gmm_params(draw, C, F, scales=scales, offs=offs)
    n = gen.integer(draw, 1, max_rows or (40 if gen.big() else 20))
    if gen.choice(draw, [False, False, False, False, True]):
        n = 1  # adaptation from a single frame
    shifted = dict(prior)
    shifted["means"] = prior["means"] + scales[None, :] * r.normal(0, 1.0, (C, F))
    X, _ = gen.data_from(draw, shifted, n, kind="bulk", r=r)
    starve = C >= 2 and gen.choice(draw, [False, False, True])
    if starve:
        j = gen.integer(draw, 0, C - 1)
        prior["means"] = prior["means"].copy()
        prior["means"][j] = prior["means"][j] + 1e3 * np.sqrt(prior["variances"][j]) * (1 + np.abs(X).max() / scales.max())
    upd = list(gen.choice(draw, COMBOS if allow_var else [(1, 0, 0), (1, 0, 1), (0, 0, 1), (0, 0, 0)]))
    mode = gen.choice(draw, ["reynolds", "reynolds", "fixed"])
    if mode == "reynolds":
        rel = float(10.0 ** draw(gen.st.floats(-3, 3)))
        alpha = 0.5
    else:
        rel = None
        alpha = gen.choice(draw, [0.0, 1.0, 0.5, draw(gen.st.floats(0, 1))])
        if gen.choice(draw, [False, False, True]):
            # one fixed ratio per component, handed over as an array (0 and 1 included)
            alpha = np.clip(r.uniform(-0.2, 1.2, C), 0.0, 1.0)
    c = {"prior": prior, "X": X, "upd": [bool(u) for u in upd], "relevance": rel,
         "alpha": (np.array(alpha, dtype=float) if np.ndim(alpha) else float(alpha)),
         "starve": bool(starve), "count_floor": gen.choice(draw, [EPS, EPS, 1e-6, 1e-2, 0.3]), "scales": scales,
         # the prior handed over may itself be a MAP-adapted machine (a condition-dependent background model adapted
         # from a root UBM): the prior is the machine that was handed over, with ITS parameters
         "prior_is_map": gen.choice(draw, [False, False, True])}
    c["how"] = gen.presentation_for(draw, c)
    if c["X"].shape[0] == 1 and c["how"] == "plain" and gen.boolean(draw):
        c["how"] = "row1d"  # the single frame handed over as a 1-D vector of n_features values
    return c


def prior_of(case):
    p = case["prior"]
    if not case.get("prior_is_map"):
        return sut.make_gmm(p)
    root = sut.make_gmm(dict(p, means=np.asarray(p["means"]) * 0.5 - np.sqrt(np.asarray(p["variances"])),
                             variances=np.asarray(p["variances"]) * 2.0, weights=np.asarray(p["weights"])[::-1].copy()))
    m = sut.GMMMachine(n_gaussians=p["C"], trainer="map", ubm=root)
    if "floors" in p:
        m.variance_thresholds = np.array(p["floors"], dtype=float) if np.ndim(p["floors"]) else float(p["floors"])
    m.means, m.variances, m.weights = np.array(p["means"], float), np.array(p["variances"], float), np.array(p["weights"], float)
    return m


def map_machine(case, cap, prior_machine=None, thr=None):
    ubm = prior_machine or prior_of(case)
    g = sut.GMMMachine(
        n_gaussians=case["prior"]["C"],
        trainer="map",
        ubm=ubm,
        convergence_threshold=thr,
        max_fitting_steps=cap,
        update_means=case["upd"][0],
        update_variances=case["upd"][1],
        update_weights=case["upd"][2],
        mean_var_update_threshold=case["count_floor"],
        map_alpha=(np.array(case["alpha"], dtype=float) if np.ndim(case["alpha"]) else case["alpha"]),
        map_relevance_factor=case["relevance"],
    )
    return ubm, g


def snapshot(g):
    return [np.array(a, copy=True) for a in (g.weights, g.means, g.variances, np.asarray(g.variance_thresholds))]


def same_snapshot(a, b):
    return all(x.shape == y.shape and np.array_equal(x, y) for x, y in zip(a, b))


def check_variances(ctx, case, got_var, want_var, s, prior_t, mu_new, what):
    """Strict comparison, except the exact wrong value of known finding KF-1."""
    X = case["X"]
    sc = float(max(np.abs(X).max(), np.abs(prior_t[1]).max()))
    atol = 64 * max(X.shape[0], 1) * EPS * sc * sc
    try:
        ctx.close(got_var, want_var, what, rtol=1e-8, atol=atol)
        return True
    except Exception as v:  # Violation
        if type(v).__name__ != "Violation":
            raise
        kf = ref.map_variance_kf1(s["n"], s["sum_px"], s["sum_pxx"], prior_t, mu_new, case["relevance"],
                                  case["alpha"], case["count_floor"], case["prior"]["floors"])
        g = np.asarray(got_var, float)
        same = np.isfinite(g).all() and np.allclose(g, kf, rtol=1e-8, atol=atol)
        if same and ctx.known_finding("KF-1"):
            ctx.event("KF-1 recognised")
            return False
        raise


def g_step(draw):
    return g_case(draw)


@REG.obligation("map_step_formula", g_step, quick=700, thorough=15000)
def c_step(ctx, case):
    """One MAP iteration == Reynolds eqs. 11-13 on the prior's statistics; prior untouched."""
    p, X, upd = case["prior"], case["X"], case["upd"]
    ubm, g = map_machine(case, 1)
    before = snapshot(ubm)
    blob = pickle.dumps(before)
    g.fit(sut.present(X, case.get("how", "plain")))
    ctx.check(same_snapshot(before, snapshot(ubm)) and pickle.dumps(snapshot(ubm)) == blob,
              "MAP training modified its prior (UBM)", "prior-modified")
    prior_t = (p["weights"], p["means"], p["variances"])
    s = ref.gmm_stats(X, *prior_t)
    want = ref.map_mstep(s["n"], s["sum_px"], s["sum_pxx"], X.shape[0], prior_t, prior_t, upd[0], upd[1],
                         upd[2], case["relevance"], case["alpha"], case["count_floor"], p["floors"])
    if case["relevance"] is not None:
        a = s["n"] / (s["n"] + case["relevance"])
    else:
        a = np.full(p["C"], case["alpha"])
    mid = bool(((a > 0.05) & (a < 0.95)).any())
    mu_sq_differs = bool((np.abs(p["means"] - p["means"] ** 2) > 1e-3 * np.abs(p["means"])).any())
    noev = bool((s["n"] < case["count_floor"]).any())
    ctx.note(mid and mu_sq_differs and any(upd), "upd:%d%d%d" % tuple(int(u) for u in upd),
             "reynolds" if case["relevance"] is not None else "fixed-alpha",
             "no-evidence-component" if noev else None, "single-row" if X.shape[0] == 1 else None)
    tiny = bool(((s["n"] >= case["count_floor"]) & (s["n"] < 1e-6)).any())
    if tiny and (upd[0] or upd[1]):
        ctx.discard("component with 0 < n < 1e-6 (E_c[x] is 0/0-conditioned)")
    if (np.abs(s["n"] / case["count_floor"] - 1) < 1e-6).any():
        ctx.discard("a responsibility mass within 1e-6 of the count floor (evidence / no evidence is a switch there)")
    if case["count_floor"] > 1e-6:
        ctx.event("count floor %g" % case["count_floor"])
        if ((s["n"] >= case["count_floor"]) & (s["n"] < case["count_floor"] * X.shape[0])).any():
            ctx.event("component with count floor <= n < floor * t")
    w, mu, var = sut.params_of(g)
    sc = float(max(np.abs(X).max(), np.abs(p["means"]).max()))
    ctx.close(w, want[0], "adapted weights", rtol=1e-9, atol=1e-13)
    ctx.close(w.sum(), 1.0, "adapted weights sum", rtol=1e-12)
    ctx.close(mu, want[1], "adapted means", rtol=1e-9, atol=1e-12 * sc)
    check_variances(ctx, case, var, want[2], s, prior_t, want[1], "adapted variances")
    if noev:
        j = np.where(s["n"] < case["count_floor"])[0]
        ctx.close(mu[j], p["means"][j], "no-evidence means keep the prior", rtol=0, atol=0)
    # the same step through the public M-step function, called directly on the prior's statistics with the mode
    # selected by its own switch (fixed ratio: reynolds_adaptation=False and alpha, relevance_factor left alone)
    import bob.learn.em.gmm as G

    _, g3 = map_machine(case, 1)
    st = g3.acc_stats(X)
    kw = dict(update_means=upd[0], update_variances=upd[1], update_weights=upd[2],
              mean_var_update_threshold=case["count_floor"])
    if case["relevance"] is not None:
        kw.update(reynolds_adaptation=True, relevance_factor=case["relevance"])
    else:
        kw.update(reynolds_adaptation=False, alpha=(np.array(case["alpha"], dtype=float) if np.ndim(case["alpha"]) else case["alpha"]))
    G.map_gmm_m_step(g3, st, **kw)
    w3, mu3, var3 = sut.params_of(g3)
    ctx.close(w3, w, "map_gmm_m_step called directly vs one fit iteration: weights", rtol=1e-12, atol=1e-15)
    ctx.close(mu3, mu, "map_gmm_m_step called directly vs one fit iteration: means", rtol=1e-12, atol=1e-14 * sc)
    ctx.close(var3, var, "map_gmm_m_step called directly vs one fit iteration: variances", rtol=1e-12, atol=1e-14 * sc * sc)


def g_limits(draw):
    c = g_case(draw)
    c["relevance"] = 4.0
    c["starve"] = False
    return c


@REG.obligation("relevance_limits", g_limits, quick=300, thorough=5000)
def c_limits(ctx, case):
    """A very large relevance factor returns the prior; a vanishing one returns the ML M-step estimate."""
    p, X, upd = case["prior"], case["X"], case["upd"]
    prior_t = (p["weights"], p["means"], p["variances"])
    s = ref.gmm_stats(X, *prior_t)
    if (s["n"] < max(1e-3, float(case["count_floor"]) * (1 + 1e-6))).any():
        ctx.discard("a component has (almost) no evidence, or less than the count floor: the ML limit is undefined for it")
    ctx.note(any(upd) and p["C"] >= 2, "upd:%d%d%d" % tuple(int(u) for u in upd))
    sc = float(max(np.abs(X).max(), np.abs(p["means"]).max()))
    # r -> infinity
    big = dict(case, relevance=1e12)
    _, g = map_machine(big, 1)
    g.fit(X)
    w, mu, var = sut.params_of(g)
    ctx.close(w, p["weights"], "weights at r=1e12", rtol=1e-6, atol=1e-9)
    ctx.close(mu, p["means"], "means at r=1e12", rtol=1e-6, atol=1e-9 * sc)
    want_big = ref.map_mstep(s["n"], s["sum_px"], s["sum_pxx"], X.shape[0], prior_t, prior_t, upd[0], upd[1],
                             upd[2], 1e12, 0.5, case["count_floor"], p["floors"])
    if check_variances(ctx, big, var, want_big[2], s, prior_t, want_big[1], "variances at r=1e12"):
        ctx.close(var, np.maximum(p["variances"], 0), "variances at r=1e12 equal the prior", rtol=1e-5,
                  atol=1e-7 * sc * sc)
    # r -> 0
    small = dict(case, relevance=1e-12)
    _, g = map_machine(small, 1)
    g.fit(X)
    w, mu, var = sut.params_of(g)
    ml = ref.ml_mstep(s["n"], s["sum_px"], s["sum_pxx"], X.shape[0], *prior_t, upd[0], upd[1], upd[2],
                      case["count_floor"], p["floors"])
    ctx.close(w, ml[0], "weights at r=1e-12 vs ML", rtol=1e-6, atol=1e-9)
    ctx.close(mu, ml[1], "means at r=1e-12 vs ML", rtol=1e-6, atol=1e-8 * sc)
    if upd[0] or not upd[1]:
        # with frozen means the statement's explicit formula (E[x^2] - mean^2 around the kept mean) and the
        # ML conditional maximiser differ; the explicit formula is what map_step_formula checks
        ctx.close(var, ml[2], "variances at r=1e-12 vs ML", rtol=1e-5, atol=1e-7 * sc * sc)


def g_pen(draw):
    c = g_case(draw, allow_var=False, max_rows=30)
    c["upd"] = [True, False, False]
    c["relevance"] = float(10.0 ** draw(gen.st.floats(-2, 2)))
    c["K"] = gen.integer(draw, 2, 6)
    return c


@REG.obligation("penalised_likelihood_monotone", g_pen, quick=250, thorough=5000)
def c_pen(ctx, case):
    """Means-only Reynolds adaptation never decreases sum log p(x) - r/2 sum (mu-mu0)^2/var."""
    p, X, K, r = case["prior"], case["X"], case["K"], case["relevance"]
    _, g = map_machine(case, 1)
    vals = [ref.map_penalised_ll(X, *sut.params_of(g), p["means"], r)]
    cf = float(case["count_floor"])
    for _ in range(K):
        if cf > 1e-6:
            n_now = ref.gmm_stats(X, *sut.params_of(g))["n"]
            if ((n_now > 1e-9) & (n_now < cf * (1 + 1e-6))).any():
                # a component with some evidence, but less than the configured count floor, is left at the prior by
                # design: that step is not the exact maximiser, the monotonicity statement does not cover it
                ctx.discard("count floor active (a component with evidence below the configured floor)")
        g.fit(X)
        vals.append(ref.map_penalised_ll(X, *sut.params_of(g), p["means"], r))
    inc = np.diff(vals)
    strictly = int((inc > 1e-9 * (1 + abs(vals[0]))).sum())
    ctx.note(strictly >= 2 and p["C"] >= 2, "starved" if case["starve"] else None)
    for k, d in enumerate(inc):
        ctx.stat_max("largest decrease / (1+|value|)", max(0.0, -d) / (1 + abs(vals[k])))
        if d < -1e-9 * (1 + abs(vals[k])):
            ctx.fail("penalised likelihood fell from %.12g to %.12g at iteration %d (r=%g)"
                     % (vals[k], vals[k + 1], k + 1, r), "penalised-decrease")


def g_multi(draw):
    c = g_case(draw, max_rows=30)
    c["K"] = gen.integer(draw, 2, 6)
    c["dask"] = gen.boolean(draw)
    c["isolate"], c["order_seed"] = gen.boolean(draw), gen.integer(draw, 0, 999)
    c["chunks"] = gen.composition(draw, c["X"].shape[0], max_parts=5)
    return c


@REG.obligation("map_trajectory", g_multi, quick=300, thorough=6000)
def c_multi(ctx, case):
    """K MAP iterations (one fit, or K resumed fits) follow the reference Reynolds trajectory."""
    p, X, K, upd = case["prior"], case["X"], case["K"], list(case["upd"])
    if upd[1] and "KF-1" in ctx.known:
        upd[1] = False  # excluded by construction while KF-1 is open (counted)
        ctx.event("variance update excluded (KF-1 open)")
    case = dict(case, upd=upd)
    prior_t = (p["weights"], p["means"], p["variances"])
    models, L = ref.map_trajectory(X, prior_t, upd, K, case["relevance"], case["alpha"], case["count_floor"],
                                   p["floors"])
    # guard: components hovering around the count floor make the branch undetermined
    for (w, mu, var) in models[:-1]:
        n = ref.gmm_stats(X, w, mu, var)["n"]
        if ((n > 0) & (n < 1e-6)).any():
            ctx.discard("component with 0 < n < 1e-6")
    ctx.note(p["C"] >= 2 and any(upd) and K >= 2, "upd:%d%d%d" % tuple(int(u) for u in upd),
             "dask" if case["dask"] else "numpy")
    from vf import sched

    data = sut.dask_rows(X, case["chunks"]) if case["dask"] else X
    _, g = map_machine(case, K)
    _, h = map_machine(case, 1)
    with sched.owned("random", int(case.get("order_seed", 0)), bool(case["dask"] and case.get("isolate", False))):
        g.fit(data)
        for _ in range(K):
            h.fit(data)
    sc = float(max(np.abs(X).max(), np.abs(p["means"]).max()))
    for name, m in (("fit(cap=K)", g), ("K resumed fits", h)):
        w, mu, var = sut.params_of(m)
        ctx.close(w, models[K][0], name + " weights vs reference", rtol=1e-7, atol=1e-10)
        ctx.close(mu, models[K][1], name + " means vs reference", rtol=1e-7, atol=1e-9 * sc)
        ctx.close(var, models[K][2], name + " variances vs reference", rtol=1e-6, atol=1e-8 * sc * sc)


def g_warm(draw):
    C = gen.integer(draw, 2, 4)
    F = gen.integer(draw, 1, 3)
    r = gen.rng(draw)
    scales = gen.feature_scales(draw, F, lo=-2, hi=2)
    prior = gen.gmm_params(draw, C, F, scales=scales, offs=gen.feature_offsets(draw, F, scales, kmax=10.0))
    # well separated components: 40 sigma apart along the first feature
    prior["means"] = prior["means"].copy()
    prior["means"][:, 0] = prior["offsets"][0] + scales[0] * 40.0 * np.sqrt(7.4) * np.arange(C)
    sd = np.sqrt(prior["variances"])
    n1 = gen.integer(draw, C, 16)
    comp = np.concatenate([np.arange(C), r.integers(0, C, n1 - C)])
    X1 = prior["means"][comp] + sd[comp] * r.normal(0.7, 1.0, (n1, F))
    keep = sorted(set(int(v) for v in r.integers(0, C, gen.integer(draw, 1, C - 1))))
    n2 = gen.integer(draw, 1, 10)
    comp2 = r.choice(keep, n2)
    X2 = prior["means"][comp2] + sd[comp2] * r.normal(-0.5, 1.0, (n2, F))
    mode = gen.choice(draw, ["reynolds", "reynolds", "fixed"])
    return {"prior": prior, "X1": X1, "X2": X2, "K1": gen.integer(draw, 1, 3), "K2": gen.integer(draw, 1, 3),
            "upd": [True, False, gen.boolean(draw)], "relevance": float(10.0 ** draw(gen.st.floats(-1, 1.5))) if mode == "reynolds" else None,
            "alpha": gen.choice(draw, [0.5, 0.3, 0.9]), "count_floor": EPS, "keep": keep,
            "same_machine": gen.boolean(draw)}


@REG.obligation("warm_start_on_new_data", g_warm, quick=250, thorough=5000)
def c_warm(ctx, case):
    """An adapted machine trained further on data that leave some components WITHOUT ANY evidence: those
    components return to the prior's means (alpha = 0), the others blend prior and data as usual."""
    p, upd = case["prior"], case["upd"]
    prior_t = (p["weights"], p["means"], p["variances"])
    cur = prior_t
    starved_after_moving = False
    for X, K in ((case["X1"], case["K1"]), (case["X2"], case["K2"])):
        for _ in range(K):
            s = ref.gmm_stats(X, *cur)
            if ((s["n"] >= case["count_floor"]) & (s["n"] < 1e-6)).any():
                ctx.discard("component with count floor <= n < 1e-6")
            moved = np.abs(cur[1] - p["means"]).max(axis=1) > 1e-9 * np.abs(p["means"]).max()
            if ((s["n"] < case["count_floor"]) & moved).any():
                starved_after_moving = True
            cur = ref.map_mstep(s["n"], s["sum_px"], s["sum_pxx"], X.shape[0], prior_t, cur, upd[0], False, upd[2],
                                case["relevance"], case["alpha"], case["count_floor"], p["floors"])
    ctx.note(starved_after_moving, "reynolds" if case["relevance"] is not None else "fixed-alpha",
             "starved-after-moving" if starved_after_moving else "never-starved",
             "same-machine" if case["same_machine"] else "means-assigned")
    ubm, g = map_machine(dict(case, upd=[upd[0], False, upd[2]]), case["K1"])
    g.fit(case["X1"])
    if case["same_machine"]:
        g.max_fitting_steps = case["K2"]
        g.fit(case["X2"])
    else:
        # warm start of a second machine through the public setters
        _, h = map_machine(dict(case, upd=[upd[0], False, upd[2]]), case["K2"], prior_machine=ubm)
        h.means = np.array(g.means, copy=True)
        h.weights = np.array(g.weights, copy=True)
        h.fit(case["X2"])
        g = h
    w, mu, var = sut.params_of(g)
    sc = float(max(np.abs(case["X1"]).max(), np.abs(p["means"]).max()))
    ctx.close(mu, cur[1], "means after continuing on data that starve some components", rtol=1e-7, atol=1e-9 * sc)
    ctx.close(w, cur[0], "weights after continuing on data that starve some components", rtol=1e-7, atol=1e-10)
