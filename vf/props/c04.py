"""C04 — array training is independent of chunking, task order and worker isolation."""
import numpy as np

from vf import gen, guard, sched, sut
from vf.runner import Registry

EPS = np.finfo(float).eps

REG = Registry(
    "C04",
    rule=(
        "Hypothesis draws an estimator (k-means with explicit or seeded 'random' initialisation; GMM ML with "
        "explicit or k-means initialisation; GMM MAP; ISV/JFA fit_using_array; WCCN; whitening), 4..30 training "
        "rows, a composition of the rows into chunks (uneven, single-row, one chunk), for k-means and GMM also a "
        "composition of the feature axis, an execution-order policy for the harness-owned Dask executor (graph "
        "order / reverse / seeded random choice among the ready tasks) and isolate in {False, True} (every task "
        "and result round-tripped through cloudpickle, as on a distributed worker). Oracle: differential against "
        "the same estimator trained on the in-memory array: parameters within the re-association tolerance, the "
        "k-means criterion equal, and the same number of iterations (thresholds and caps are generated; cases "
        "whose stop decision is not robust to a 1e-6 relative change of the threshold are discarded). "
        "Non-trivial: >=2 chunks of unequal size, >=2 iterations, and isolate=True or a non-graph order."
    ),
    assumptions=[
        "'k-means||' is excluded here: dask-ml's oversampling draws per block, so the initial centroids depend on chunking by construction of the third-party initialiser",
        "re-association tolerance 1e-7 relative after <= 10 iterations",
    ],
)


def schedule(draw):
    return {"order": gen.choice(draw, ["random", "lifo", "fifo", "random"]), "seed": gen.integer(draw, 0, 2**16),
            "isolate": gen.boolean(draw)}


def darr(X, row_chunks, col_chunks=None):
    import dask.array as da

    cols = tuple(col_chunks) if col_chunks else (X.shape[1],)
    return da.from_array(np.asarray(X), chunks=(tuple(row_chunks), cols))


def note(ctx, case, iters, extra=()):
    ch = [c_ for c_ in case["chunks"] if c_] or [0]
    if 0 in case["chunks"]:
        ctx.event("empty-chunk")
    s = case["sched"]
    ctx.note(len(ch) >= 2 and len(set(ch)) >= 2 and iters >= 2 and (s["isolate"] or s["order"] != "fifo"),
             "chunks=%d" % min(len(ch), 6), "chunks>=9" if len(ch) >= 9 else None, "chunks>=17" if len(ch) >= 17 else None,
             "single-row-chunk" if 1 in ch else None,
             "isolate" if s["isolate"] else "shared", "order:" + s["order"],
             "feature-chunks" if case.get("fchunks") and len(case["fchunks"]) > 1 else None, *extra)


# ---------------------------------------------------------------------------- k-means

def g_km(draw):
    slow = gen.choice(draw, [False, False, True])
    c = gen.kmeans_data(draw, max_rows=40, min_rows=4, slow=slow)
    r = gen.rng(draw)
    X, k = c["X"], c["k"]
    method = "corner" if slow else gen.choice(draw, ["array", "array", "random"])
    if method == "random":
        c["init"] = {"method": "random", "init": None, "seed": gen.integer(draw, 0, 999)}
    else:
        c["init"] = gen.kmeans_init(draw, X, k, c["scale"], corner=(method == "corner"))
        if c["init"]["method"] != "array":
            c["init"] = {"method": "random", "init": None, "seed": c["init"]["seed"]}
    c["thr"] = gen.choice(draw, [None, 1e-1, 1e-2, 0.3, 1e-5])
    c["cap"] = gen.choice(draw, [1, 2, 3, 5, 8, 12])
    c["chunks"] = gen.composition(draw, X.shape[0], max_parts=gen.choice(draw, [6, 6, None]))
    if c["init"]["method"] == "array":
        # dask-ml's seeded initialisers cannot handle zero-length blocks (third party): only with explicit centroids
        c["chunks"] = gen.with_empty_chunks(draw, c["chunks"])
    c["fchunks"] = gen.composition(draw, X.shape[1], max_parts=3)
    c["sched"] = schedule(draw)
    return c


def km(case, thr):
    from bob.learn.em import KMeansMachine

    ini = case["init"]
    method = np.array(ini["init"], copy=True) if ini["method"] == "array" else ini["method"]
    return KMeansMachine(case["k"], init_method=method, convergence_threshold=thr, max_iter=case["cap"],
                         random_state=int(ini["seed"]))


@REG.obligation("kmeans_dask_equals_numpy", g_km, quick=220, thorough=5000, shard_size=40)
def c_km(ctx, case):
    """k-means on a Dask array: same centroids, same criterion, same number of iterations as in memory."""
    X, thr = case["X"], case["thr"]
    n0 = guard.steps()
    a = km(case, thr).fit(X)
    iters_a = guard.steps() - n0
    if thr:
        for f in (1 - 1e-6, 1 + 1e-6):
            b = km(case, thr * f).fit(X)
            if not np.allclose(a.centroids_, b.centroids_, rtol=1e-9, atol=0) or a.average_min_distance != b.average_min_distance:
                ctx.discard("stop decision within 1e-6 of the threshold")
    if not np.isfinite(a.centroids_).all():
        ctx.discard("empty cluster")
    s = case["sched"]
    with sched.owned(s["order"], s["seed"], s["isolate"]) as ex:
        n0 = guard.steps()
        d = km(case, thr).fit(darr(X, case["chunks"], case["fchunks"]))
        iters_d = guard.steps() - n0
        dv, dw = d.get_variances_and_weights_for_each_cluster(darr(X, case["chunks"], case["fchunks"]))
    note(ctx, case, case["cap"], ("init:" + case["init"]["method"], "thr" if thr else "no-thr"))
    sc = float(np.abs(X).max())
    spread = float(np.abs(X - X.mean(axis=0)).max()) + 1e-300
    ctx.check(iters_d == iters_a, "k-means performed %d iterations on the Dask array and %d on the in-memory array"
              % (iters_d, iters_a))
    ctx.close(d.centroids_, a.centroids_, "centroids (Dask vs in-memory)", rtol=1e-7, atol=1e-9 * spread)
    ctx.close(d.average_min_distance, a.average_min_distance, "training criterion (Dask vs in-memory)", rtol=1e-7,
              atol=64 * EPS * sc * sc)
    av, aw = a.get_variances_and_weights_for_each_cluster(X)
    ctx.close(dw, aw, "cluster weights (Dask vs in-memory)", rtol=1e-9, atol=1e-12)
    ctx.close(dv, av, "cluster variances (Dask vs in-memory)", rtol=1e-7, atol=64 * X.shape[0] * EPS * sc * sc)
    ctx.stat_max("tasks per fit", ex.tasks_run)


# ---------------------------------------------------------------------------- GMM

def g_gmm(draw):
    c = gen.gmm_training_case(draw, max_rows=gen.choice(draw, [30, 30, 70]), min_rows=4)
    c["trainer"] = gen.choice(draw, ["ml", "ml", "map"])
    c["init_by_kmeans"] = c["trainer"] == "ml" and gen.choice(draw, [False, False, True])
    c["thr"] = gen.choice(draw, [None, 1e-2, 1e-1, 1e-3, 3e-2])
    c["cap"] = gen.choice(draw, [1, 2, 3, 5, 8])
    c["relevance"] = float(10.0 ** gen.integer(draw, -1, 2))
    c["chunks"] = gen.with_empty_chunks(draw, gen.composition(draw, c["X"].shape[0], max_parts=gen.choice(draw, [6, 6, None])))
    c["fchunks"] = gen.composition(draw, c["X"].shape[1], max_parts=3)
    c["sched"] = schedule(draw)
    # the count below which a component is not updated (mean_var_update_threshold): default, or a value that single
    # blocks stay under while the whole data set does not
    c["count_floor"] = gen.choice(draw, [EPS, EPS, EPS, 1e-6, 1e-2, 0.3])
    # rows selected by a lazy boolean mask: shape and chunk sizes unknown until computed (GMM training accepts that)
    # (k-means refuses such arrays with Dask's own "chunk sizes are unknown" error: not with a k-means initialisation)
    c["unknown_chunks"] = (len(c["fchunks"]) == 1 and 0 not in c["chunks"] and not c["init_by_kmeans"]
                           and gen.choice(draw, [False, False, True]))
    if c["trainer"] == "map":
        c["upd"] = [c["upd"][0], False, c["upd"][2]]  # KF-1 (MAP variance blend) is C05's business
    return c


def gmm(case, thr, cap=None):
    from bob.learn.em import GMMMachine, KMeansMachine

    init, upd = case["init"], case["upd"]
    kw = dict(convergence_threshold=thr, max_fitting_steps=case["cap"] if cap is None else cap, update_means=upd[0],
              update_variances=upd[1], update_weights=upd[2], mean_var_update_threshold=float(case.get("count_floor", EPS)))
    if case["trainer"] == "map":
        ubm = sut.make_gmm(init)
        return GMMMachine(init["C"], trainer="map", ubm=ubm, map_relevance_factor=case["relevance"], **kw)
    if case["init_by_kmeans"]:
        kmm = KMeansMachine(init["C"], init_method=np.array(init["means"], copy=True), max_iter=2,
                            convergence_threshold=None)
        g = GMMMachine(init["C"], k_means_trainer=kmm, **kw)
        return g
    return sut.make_gmm(init, trainer="ml", **kw)


@REG.obligation("gmm_dask_equals_numpy", g_gmm, quick=220, thorough=5000, shard_size=40)
def c_gmm(ctx, case):
    """GMM (ML / MAP / k-means-initialised) on a Dask array: same model and iteration count as in memory."""
    X, thr = case["X"], case["thr"]
    n0 = guard.steps()
    a = gmm(case, thr).fit(X)
    iters_a = guard.steps() - n0
    pa = sut.params_of(a)
    if not all(np.isfinite(x).all() for x in pa):
        ctx.discard("non-finite in-memory model (empty k-means cluster)")
    spread2 = float(np.var(X, axis=0).max()) + 1e-300
    if (pa[2] <= np.asarray(a.variance_thresholds) * (1 + 1e-6)).any() or (pa[2] < 1e-8 * spread2).any():
        # a component collapsed onto (almost) a single point: responsibilities amplify rounding by 1/variance
        ctx.discard("floor active / collapsed component (ill-conditioned)")
    if thr:
        for f in (1 - 1e-6, 1 + 1e-6):
            b = sut.params_of(gmm(case, thr * f).fit(X))
            if not all(np.allclose(x, y, rtol=1e-9, atol=0) for x, y in zip(pa, b)):
                ctx.discard("stop decision within 1e-6 of the threshold")
    cf = float(case.get("count_floor", EPS))
    if cf > EPS:
        # "updated or not" is a switch at the count floor: a total count within 1e-6 of it is a matter of rounding
        for k in range(0, iters_a):
            mk = gmm(case, None, cap=k).fit(X)
            nk = np.asarray(mk.acc_stats(X).n, float)
            if (np.abs(nk / cf - 1) < 1e-6).any():
                ctx.discard("a component's total count within 1e-6 of the count floor")
            if k == 0:
                ctx.event("count-floor>eps")
                if (nk < cf).any():
                    ctx.event("count-floor active for the whole set")
    s = case["sched"]
    with sched.owned(s["order"], s["seed"], s["isolate"]) as ex:
        n0 = guard.steps()
        if case.get("unknown_chunks"):
            ctx.event("dask array with unknown chunk sizes")
            d = gmm(case, thr).fit(sut.dask_rows(X, case["chunks"], unknown=True))
        else:
            d = gmm(case, thr).fit(darr(X, case["chunks"], case["fchunks"]))
        iters_d = guard.steps() - n0
    pd = sut.params_of(d)
    note(ctx, case, case["cap"], ("trainer:" + case["trainer"], "kmeans-init" if case["init_by_kmeans"] else None,
                                  "upd:%d%d%d" % tuple(int(u) for u in case["upd"])))
    sc = float(np.abs(X).max())
    ctx.check(iters_d == iters_a, "GMM training performed %d M-steps on the Dask array and %d on the in-memory array"
              % (iters_d, iters_a))
    ctx.close(pd[0], pa[0], "weights (Dask vs in-memory)", rtol=1e-7, atol=1e-10)
    ctx.close(pd[1], pa[1], "means (Dask vs in-memory)", rtol=1e-7, atol=1e-9 * sc)
    ctx.close(pd[2], pa[2], "variances (Dask vs in-memory)", rtol=1e-6, atol=64 * X.shape[0] * EPS * sc * sc)
    ctx.stat_max("tasks per fit", ex.tasks_run)


# ---------------------------------------------------------------------------- many rows

def g_big(draw):
    c = gen.big_rows_case(draw)
    c.update(cap=gen.integer(draw, 1, 3), thr=gen.choice(draw, [None, 1e-2]), which=gen.choice(draw, ["kmeans", "gmm"]),
             sched=schedule(draw))
    return c


_big_data = gen.big_rows


@REG.obligation("many_rows", g_big, quick=18, thorough=300, shard_size=3)
def c_big(ctx, case):
    """Thousands of rows (1e3 .. 7e4, so that any internal batching of a block is exercised): k-means / GMM on
    the in-memory array, on a Dask array with a few large uneven chunks, and the definition (k-means criterion and
    centroids after one step from NumPy) agree."""
    from bob.learn.em import GMMMachine, KMeansMachine

    X, init = _big_data(case)
    n, k = X.shape[0], int(case["k"])
    s = case["sched"]
    sc = float(np.abs(X).max())
    spread = float(np.abs(X - X.mean(axis=0)).max()) + 1e-300
    ctx.note(max(case["chunks"]) > 4096 and len(case["chunks"]) >= 2, "n>%d" % (10 ** int(np.log10(n))),
             "which:" + case["which"], "grouped" if case["sorted"] else "shuffled")
    if case["which"] == "kmeans":
        def mk():
            return KMeansMachine(k, init_method=np.array(init, copy=True), max_iter=int(case["cap"]),
                                 convergence_threshold=case["thr"])
        a = mk().fit(X)
        with sched.owned(s["order"], s["seed"], s["isolate"]):
            d = mk().fit(darr(X, case["chunks"]))
        # definition, first iteration
        one = KMeansMachine(k, init_method=np.array(init, copy=True), max_iter=1, convergence_threshold=None).fit(X)
        D = ((X[None, :, :] - init[:, None, :]) ** 2).sum(axis=2)
        lab = D.argmin(axis=0)
        srt = np.sort(D, axis=0)
        if ((srt[1] - srt[0]) / np.maximum(srt[1], 1e-300)).min() < 1e-9:
            ctx.discard("near-tie")
        want_c = np.stack([X[lab == i].mean(axis=0) if (lab == i).any() else init[i] for i in range(k)])
        ctx.close(one.average_min_distance, D.min(axis=0).mean(), "criterion of the first iteration vs definition",
                  rtol=1e-9, atol=64 * EPS * sc * sc)
        ctx.close(one.centroids_, want_c, "centroids after one iteration vs definition", rtol=1e-9, atol=1e-9 * spread)
        ctx.close(d.centroids_, a.centroids_, "centroids (Dask vs in-memory)", rtol=1e-7, atol=1e-9 * spread)
        ctx.close(d.average_min_distance, a.average_min_distance, "training criterion (Dask vs in-memory)", rtol=1e-7,
                  atol=64 * EPS * sc * sc)
        dv, dw = d.get_variances_and_weights_for_each_cluster(darr(X, case["chunks"]))
        av, aw = a.get_variances_and_weights_for_each_cluster(X)
        ctx.close(dw, aw, "cluster weights (Dask vs in-memory)", rtol=1e-9, atol=1e-12)
        ctx.close(dv, av, "cluster variances (Dask vs in-memory)", rtol=1e-6, atol=64 * n * EPS * sc * sc)
    else:
        var = np.full_like(init, float(case["scale"]) ** 2)
        p = {"C": k, "F": X.shape[1], "weights": np.full(k, 1.0 / k), "means": init, "variances": var, "floors": 1e-12 * var.min()}

        def mk():
            return sut.make_gmm(p, update_means=True, update_variances=True, update_weights=True,
                                max_fitting_steps=int(case["cap"]), convergence_threshold=case["thr"])
        a = mk().fit(X)
        with sched.owned(s["order"], s["seed"], s["isolate"]):
            d = mk().fit(darr(X, case["chunks"]))
        pa, pd = sut.params_of(a), sut.params_of(d)
        ctx.close(pd[0], pa[0], "weights (Dask vs in-memory)", rtol=1e-7, atol=1e-10)
        ctx.close(pd[1], pa[1], "means (Dask vs in-memory)", rtol=1e-7, atol=1e-9 * sc)
        ctx.close(pd[2], pa[2], "variances (Dask vs in-memory)", rtol=1e-6, atol=64 * n * EPS * sc * sc)
        # the whole-set statistics equal the sum of the statistics of two halves (batching inside a block)
        g = sut.make_gmm(p)
        whole, h1, h2 = g.acc_stats(X), g.acc_stats(X[: n // 2]), g.acc_stats(X[n // 2:])
        ctx.close(whole.n, h1.n + h2.n, "n of the whole vs sum of halves", rtol=1e-9, atol=1e-9)
        ctx.close(whole.log_likelihood, h1.log_likelihood + h2.log_likelihood, "log-likelihood of the whole vs sum of halves",
                  rtol=1e-10, atol=1e-9)
        ctx.close(whole.sum_pxx, h1.sum_pxx + h2.sum_pxx, "sum_pxx of the whole vs sum of halves", rtol=1e-9,
                  atol=64 * n * EPS * sc * sc)
        ctx.check(int(whole.t) == n, "t of the whole is %r" % (whole.t,))


# ---------------------------------------------------------------------------- ISV / JFA from arrays

def g_fa(draw):
    c = gen.fa_case(draw, max_sessions=1, maxC=2, maxF=2)
    r = gen.rng(draw)
    K = gen.integer(draw, 2, 3)
    per = [gen.integer(draw, 1, 3) for _ in range(K)]
    labels = np.concatenate([np.full(n, i) for i, n in enumerate(per)]).astype(int)
    labels = labels[np.array(gen.permutation(draw, len(labels)))]
    n = len(labels)
    X = np.stack([gen.data_from(draw, c["ubm"], 1, kind="bulk", r=r)[0][0] for _ in range(n)])
    c.update(X=X, y=labels, em=gen.integer(draw, 1, 2), chunks=gen.composition(draw, n, max_parts=4),
             sched=schedule(draw))
    return c


@REG.obligation("isv_jfa_fit_using_array_dask_equals_numpy", g_fa, quick=80, thorough=1500, shard_size=14)
def c_fa(ctx, case):
    """ISV/JFA fit_using_array on a row-chunked Dask array == on the in-memory array."""
    X, y = case["X"], np.asarray(case["y"])
    a = sut.make_fa(case, em_iterations=case["em"])
    a.fit_using_array(X, y)
    d = sut.make_fa(case, em_iterations=case["em"])
    s = case["sched"]
    with sched.owned(s["order"], s["seed"], s["isolate"]) as ex:
        d.fit_using_array(darr(X, case["chunks"]), y)
    note(ctx, case, 2, ("jfa" if case["jfa"] else "isv", "unsorted-labels" if list(y) != sorted(y) else None))
    for name in ("U", "D") + (("V",) if case["jfa"] else ()):
        ga, gd = np.asarray(getattr(a, name), float), np.asarray(getattr(d, name), float)
        ctx.close(gd, ga, "%s (Dask vs in-memory)" % name, rtol=1e-7, atol=1e-9 * (np.abs(ga).max() + 1e-300) + 1e-12 * float(np.sqrt(np.mean(np.asarray(case["ubm"]["variances"], float)))))
    ctx.stat_max("tasks per fit", ex.tasks_run)


# ---------------------------------------------------------------------------- WCCN / whitening

def g_lin(draw):
    from vf.props.c14 import full_rank_data

    F = gen.integer(draw, 2, 4)
    K = gen.integer(draw, 1, 4)
    sizes = [gen.integer(draw, 1, 6) for _ in range(K)]  # a class may hold a single sample
    while sum(s - 1 for s in sizes) < F + 1:
        sizes[gen.integer(draw, 0, K - 1)] += 1
    n = sum(sizes)
    X, r = full_rank_data(draw, n, F)
    cls = np.concatenate([np.full(s, i) for i, s in enumerate(sizes)])
    perm = np.array(gen.permutation(draw, n))
    return {"X": X[perm], "y": cls[perm], "chunks": gen.with_empty_chunks(draw, gen.composition(draw, n, max_parts=5)),
            "sched": schedule(draw),
            "pinv": gen.choice(draw, [False, False, True])}


@REG.obligation("wccn_whitening_dask_equals_numpy", g_lin, quick=120, thorough=2500, shard_size=20)
def c_lin(ctx, case):
    """WCCN and whitening on a row-chunked Dask array give the in-memory projection."""
    import dask

    from bob.learn.em import WCCN, Whitening

    X, y = case["X"], np.asarray(case["y"])
    cond = max(np.linalg.cond(np.cov(X.T)), 1.0)
    if cond > 1e6:
        ctx.discard("ill-conditioned")
    a_w = Whitening(pinv=case["pinv"]).fit(X)
    a_c = WCCN(pinv=case["pinv"]).fit(X, y)
    s = case["sched"]
    with sched.owned(s["order"], s["seed"], s["isolate"]) as ex:
        d_w = Whitening(pinv=case["pinv"]).fit(darr(X, case["chunks"]))
        Ww, sub = dask.compute(d_w.weights, d_w.input_subtract)
        d_c = WCCN(pinv=case["pinv"]).fit(darr(X, case["chunks"]), y)
        Wc = dask.compute(d_c.weights)[0]
    note(ctx, case, 2, ("pinv" if case["pinv"] else "inv",))
    for got, want, what in ((Ww, a_w.weights, "whitening weights"), (Wc, a_c.weights, "WCCN weights")):
        want = np.asarray(want, float)
        ctx.close(np.asarray(got, float), want, what + " (Dask vs in-memory)", rtol=1e-8,
                  atol=1e4 * EPS * cond * np.abs(want).max())
    ctx.close(np.asarray(sub, float), np.asarray(a_w.input_subtract, float), "whitening input_subtract (Dask vs in-memory)",
              rtol=1e-10, atol=1e-12 * np.abs(X).max())


# ---------------------------------------------------------------------------- every chunking of a small array

def g_every(draw):
    est = gen.choice(draw, ["gmm", "kmeans", "gmm"])
    nmax = 8 if gen.big() else 5
    if est == "gmm":
        c = gen.gmm_training_case(draw, max_rows=nmax, min_rows=3)
        c["trainer"], c["init_by_kmeans"], c["thr"], c["cap"], c["relevance"] = "ml", False, None, 2, 4.0
    else:
        c = gen.kmeans_data(draw, max_rows=nmax, min_rows=3)
        c["k"] = min(c["k"], 2)
        c["init"] = gen.kmeans_init(draw, c["X"], c["k"], c["scale"], corner=True)
        c["thr"], c["cap"] = None, 2
    c["est"] = est
    c["order_seed"] = gen.integer(draw, 0, 2**16)
    return c


@REG.obligation("every_row_chunking_both_isolation_modes", g_every, quick=16, thorough=320, shard_size=4)
def c_every(ctx, case):
    """ALL 2^(n-1) compositions of the rows into chunks, with and without isolation, give the in-memory model."""
    import itertools

    X = case["X"]
    n = X.shape[0]
    if case["est"] == "gmm":
        a = sut.params_of(gmm(case, None).fit(X))
        spread2 = float(np.var(X, axis=0).max()) + 1e-300
        if not all(np.isfinite(v).all() for v in a) or (a[2] < 1e-8 * spread2).any():
            ctx.discard("collapsed component (ill-conditioned)")
    else:
        m = km(case, None).fit(X)
        a = (np.asarray(m.centroids_, float), np.asarray(m.average_min_distance, float))
        if not np.isfinite(a[0]).all():
            ctx.discard("empty cluster")
    ctx.note(True, "est:" + case["est"], "n=%d" % n)
    sc = float(np.abs(X).max())
    for cuts in itertools.product([0, 1], repeat=n - 1):
        sizes, cur = [], 1
        for cbit in cuts:
            if cbit:
                sizes.append(cur)
                cur = 1
            else:
                cur += 1
        sizes.append(cur)
        for iso in (False, True):
            with sched.owned("random", case["order_seed"] + len(sizes), iso):
                if case["est"] == "gmm":
                    d = sut.params_of(gmm(case, None).fit(darr(X, sizes)))
                else:
                    mm = km(case, None).fit(darr(X, sizes))
                    d = (np.asarray(mm.centroids_, float), np.asarray(mm.average_min_distance, float))
            what = "chunks %s, isolate=%s" % (sizes, iso)
            for got, want, name in zip(d, a, ("weights", "means", "variances") if case["est"] == "gmm" else ("centroids", "criterion")):
                ctx.close(got, want, "%s (%s)" % (name, what), rtol=1e-7,
                          atol=1e-9 * sc * (sc if name in ("variances", "criterion") else 1) + 1e-300)
            ctx.event("chunkings-tried")
