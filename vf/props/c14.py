"""C14 — WCCN/whitening map covariance to identity; WCCN depends only on the partition."""
import numpy as np

from vf import gen
from vf.runner import Registry

EPS = np.finfo(float).eps

REG = Registry(
    "C14",
    rule=(
        "Hypothesis draws full-rank data X = Z A + b (condition number of the covariance bounded by 1e6, "
        "otherwise discarded), a partition of the rows into 1..5 classes with enough rows for a full-rank "
        "within-class scatter, a label map from class index to arbitrary integers (negative, non-contiguous, "
        "huge, unsorted), a row permutation, NumPy and row-chunked Dask input, pinv on/off. Oracles: whitening: "
        "transformed mean 0 and numpy.cov == I; WCCN: within-class scatter of the transformed data / K == I "
        "(tolerance 1e5*eps*cond); both projections lower-triangular with positive diagonal; WCCN weights "
        "invariant under any relabelling and any row permutation; Dask == NumPy. Non-trivial: >=2 classes and "
        "labels different from 0..K-1 in order."
    ),
    assumptions=["whitening is generated with F >= 2 (for one feature numpy.cov returns a 0-d array and SciPy's inv refuses it with a clean ValueError)"],
)


def full_rank_data(draw, n, F):
    r = gen.rng(draw)
    Z = r.normal(0, 1, (n, F))
    Q, _ = np.linalg.qr(r.normal(0, 1, (F, F)))
    sv = 10.0 ** r.uniform(-1.5, 1.5, F) * 10.0 ** gen.integer(draw, -2, 2)
    A = Q * sv[None, :]
    # also far from the origin (a one-pass E[xx'] - mm' covariance would cancel there; centred data do not)
    b = sv.max() * gen.choice(draw, [0.0, 1.0, -20.0, 1e4, -1e7]) * np.ones(F)
    return Z @ A.T + b, r


def integral_rows(X):
    """Integer-valued rows with the same structure (columns rescaled to a spread of ~20 before rounding)."""
    sd = X.std(axis=0) + 1e-300
    return np.rint((X - np.rint(X.mean(axis=0))) * (20.0 / sd))


def g_white(draw):
    F = gen.integer(draw, 2, 5)
    n = gen.integer(draw, F + 2, 30)
    X, _ = full_rank_data(draw, n, F)
    return {"X": X, "pinv": gen.choice(draw, [False, False, True]), "dask": gen.boolean(draw),
            "chunks": gen.composition(draw, n, max_parts=5), "how": gen.choice(draw, ["plain", "plain", "fortran", "strided", "int"])}


def darr(X, chunks):
    import dask.array as da

    return da.from_array(X, chunks=(tuple(chunks), X.shape[1]))


def lower_pos(ctx, W, what):
    W = np.asarray(W, float)
    ctx.check(np.allclose(W, np.tril(W), rtol=0, atol=1e-12 * np.abs(W).max()), what + " projection is not lower-triangular",
              "not-lower-triangular")
    ctx.check((np.diag(W) > 0).all(), what + " projection has a non-positive diagonal entry", "diagonal")


@REG.obligation("whitening_identity_covariance", g_white, quick=400, thorough=8000)
def c_white(ctx, case):
    """After Whitening.fit the transformed training data have zero mean and identity sample covariance."""
    import dask

    from bob.learn.em import Whitening

    X = case["X"]
    if case.get("how") == "int":
        X = integral_rows(X)
    cov = np.cov(X.T)
    cond = np.linalg.cond(cov)
    if cond > 1e6:
        ctx.discard("ill-conditioned covariance")
    ctx.note(True, "dask" if case["dask"] else "numpy", "pinv" if case["pinv"] else "inv")
    from vf import sut

    w = Whitening(pinv=case["pinv"]).fit(sut.present(X, case.get("how", "plain")))
    W = np.asarray(w.weights, float)
    lower_pos(ctx, W, "whitening")
    Y = np.asarray(w.transform(X), float)
    tol = 1e5 * EPS * cond + 1e-10
    ctx.stat_max("cov error / (eps*cond)", np.abs(np.cov(Y.T) - np.eye(X.shape[1])).max() / (EPS * cond))
    ctx.close(np.cov(Y.T), np.eye(X.shape[1]), "covariance of whitened data", rtol=0, atol=tol)
    sd_in = np.sqrt(np.diag(cov)).max()
    ctx.close(Y.mean(axis=0), np.zeros(X.shape[1]), "mean of whitened data", rtol=0,
              atol=1e3 * EPS * cond * (1 + np.abs(X).max() / sd_in))
    ctx.close(np.asarray(w.input_subtract, float), X.mean(axis=0), "input_subtract == mean", rtol=1e-12,
              atol=1e-12 * np.abs(X).max())
    if case["dask"]:
        # the fitted (NumPy) estimator applied to a Dask array gives the same transformed rows
        Yd = np.asarray(dask.compute(w.transform(darr(X, case["chunks"])))[0], float)
        ctx.close(Yd, Y, "transform(Dask array) == transform(NumPy array)", rtol=1e-10, atol=1e-12 * (np.abs(Y).max() + 1e-300))
        d = Whitening(pinv=case["pinv"]).fit(darr(X, case["chunks"]))
        Wd, sub = dask.compute(d.weights, d.input_subtract)
        ctx.close(np.asarray(Wd, float), W, "dask whitening weights == numpy", rtol=1e-7 * max(1, cond * 1e-3),
                  atol=1e-9 * cond * EPS / EPS * 1e-6 * np.abs(W).max())
        ctx.close(np.asarray(sub, float), X.mean(axis=0), "dask input_subtract", rtol=1e-10, atol=1e-12 * np.abs(X).max())


def g_wccn(draw):
    F = gen.integer(draw, 1, 4)
    K = gen.integer(draw, 1, 5)
    sizes = [gen.integer(draw, 1, 6) for _ in range(K)]  # a class may hold a single sample
    while sum(s - 1 for s in sizes) < F + 1:
        sizes[gen.integer(draw, 0, K - 1)] += 1
    n = sum(sizes)
    X, r = full_rank_data(draw, n, F)
    cls = np.concatenate([np.full(s, i) for i, s in enumerate(sizes)])
    X = X + (r.normal(0, 3, (K, F)) * X.std(axis=0))[cls]
    perm = np.array(gen.permutation(draw, n))
    X, cls = X[perm], cls[perm]
    # small, negative, non-contiguous and huge ids, including huge ids that differ by one (client numbers): equality
    # of labels is exact integer equality
    pool = [0, 1, 2, 3, 4, 5, -1, -2, -7, 10, 11, 100, 1000003, 1000004, 1000005, 100234, 100235, -250007, -250008,
            -2**31, -2**31 + 1, 2**40, 2**40 + 1, 2**62, 2**62 + 1, 17, 42]
    style = gen.choice(draw, ["arbitrary", "arbitrary", "shifted", "identity", "reversed"])
    if style == "identity":
        names = list(range(K))
    elif style == "reversed":
        names = list(range(K))[::-1]
    elif style == "shifted":
        names = list(range(1, K + 1))
    else:
        names = draw(gen.st.lists(gen.st.sampled_from(pool), min_size=K, max_size=K, unique=True))
    other = draw(gen.st.lists(gen.st.sampled_from(pool), min_size=K, max_size=K, unique=True))
    return {"X": X, "cls": cls, "names": [int(v) for v in names], "other_names": [int(v) for v in other],
            "perm2": gen.permutation(draw, n), "pinv": gen.choice(draw, [False, False, True]),
            "as_list": gen.boolean(draw), "dask": gen.boolean(draw), "chunks": gen.composition(draw, n, max_parts=4),
            "style": style, "how": gen.choice(draw, ["plain", "plain", "fortran", "strided", "int"])}


def within_scatter(Y, cls):
    F = Y.shape[1]
    S = np.zeros((F, F))
    for k in np.unique(cls):
        d = Y[cls == k] - Y[cls == k].mean(axis=0)
        S += d.T @ d
    return S


@REG.obligation("wccn_identity_scatter_and_label_independence", g_wccn, quick=500, thorough=10000)
def c_wccn(ctx, case):
    """Within-class scatter of the WCCN-transformed data / K == I; weights depend only on the partition."""
    import dask

    from bob.learn.em import WCCN

    X, cls = case["X"], np.asarray(case["cls"])
    if case.get("how") == "int":
        X = integral_rows(X)
    K = len(case["names"])
    S = within_scatter(X, cls) / K
    cond = np.linalg.cond(S)
    if not np.isfinite(cond) or cond > 1e6:
        ctx.discard("ill-conditioned within-class scatter")
    y = np.array([case["names"][c] for c in cls], dtype=np.int64)
    yarg = y.tolist() if case["as_list"] else y
    ctx.note(K >= 2 and case["names"] != list(range(K)), "labels:" + case["style"], "K=%d" % K,
             "single-sample-class" if (np.bincount(cls) == 1).any() else None,
             "dask" if case["dask"] else "numpy", "pinv" if case["pinv"] else "inv", "list-y" if case["as_list"] else "array-y")
    from vf import sut

    w = WCCN(pinv=case["pinv"]).fit(sut.present(X, case.get("how", "plain")), yarg)
    W = np.asarray(w.weights, float)
    lower_pos(ctx, W, "WCCN")
    Y = np.array([np.asarray(v, float) for v in w.transform(X)])
    ctx.check(Y.shape == X.shape, "transform shape %s" % (Y.shape,), "shape")
    # rounding of the differences x - class mean: eps * |x| relative to the smallest within-class spread
    sd_min = float(np.sqrt(np.linalg.eigvalsh(S).min()))
    far = float(np.abs(X).max()) / max(sd_min, 1e-300)
    tol = 1e5 * EPS * cond + 1e-10 + 64 * EPS * far * np.sqrt(cond)
    got = within_scatter(Y, cls) / K
    ctx.stat_max("scatter error / (eps*cond)", np.abs(got - np.eye(X.shape[1])).max() / (EPS * cond))
    ctx.close(got, np.eye(X.shape[1]), "within-class scatter of transformed data / K", rtol=0, atol=tol)
    wt = (1e4 * EPS * cond + 64 * EPS * far * np.sqrt(cond)) * np.abs(W).max() + 1e-300
    # any relabelling
    y2 = np.array([case["other_names"][c] for c in cls], dtype=np.int64)
    W2 = np.asarray(WCCN(pinv=case["pinv"]).fit(X, y2).weights, float)
    ctx.close(W2, W, "weights after relabelling the classes", rtol=1e-9, atol=wt)
    # any row order
    p2 = np.array(case["perm2"])
    W3 = np.asarray(WCCN(pinv=case["pinv"]).fit(X[p2], y[p2]).weights, float)
    ctx.close(W3, W, "weights after permuting the rows", rtol=1e-9, atol=wt)
    if case["dask"]:
        d = WCCN(pinv=case["pinv"]).fit(darr(X, case["chunks"]), y)
        Wd = np.asarray(dask.compute(d.weights)[0], float)
        ctx.close(Wd, W, "dask WCCN weights == numpy", rtol=1e-9, atol=wt)


def g_refit(draw):
    F = gen.integer(draw, 2, 4)
    kind = gen.choice(draw, ["whitening", "wccn"])
    out = {"kind": kind, "pinv": gen.choice(draw, [False, False, True]), "between": gen.choice(draw, ["transform", "transform", "pickle", "none"])}
    for name in ("A", "B"):
        if kind == "whitening":
            n = gen.integer(draw, F + 2, 20)
            X, _ = full_rank_data(draw, n, F)
            out[name] = {"X": X}
        else:
            K = gen.integer(draw, 2, 4)
            sizes = [gen.integer(draw, 2, 5) for _ in range(K)]
            while sum(s - 1 for s in sizes) < F + 1:
                sizes[gen.integer(draw, 0, K - 1)] += 1
            n = sum(sizes)
            X, r = full_rank_data(draw, n, F)
            cls = np.concatenate([np.full(s, i) for i, s in enumerate(sizes)])
            perm = np.array(gen.permutation(draw, n))
            out[name] = {"X": X[perm], "y": cls[perm]}
    return out


@REG.obligation("refit_equals_fresh_estimator", g_refit, quick=200, thorough=4000)
def c_refit(ctx, case):
    """An estimator that was already fitted (and used) and is fitted again behaves like a fresh one fitted on the new data."""
    import copy
    import pickle

    from bob.learn.em import WCCN, Whitening

    A, B = case["A"], case["B"]
    for d in (A, B):
        cov = np.cov(d["X"].T)
        if np.linalg.cond(cov) > 1e6:
            ctx.discard("ill-conditioned")
    make = (lambda: Whitening(pinv=case["pinv"])) if case["kind"] == "whitening" else (lambda: WCCN(pinv=case["pinv"]))
    args = (lambda d: (d["X"],)) if case["kind"] == "whitening" else (lambda d: (d["X"], d["y"]))
    t = make().fit(*args(A))
    if case["between"] == "transform":
        t.transform(A["X"])
    elif case["between"] == "pickle":
        t.transform(A["X"][:1])
        t = pickle.loads(pickle.dumps(copy.deepcopy(t)))
    t.fit(*args(B))
    fresh = make().fit(*args(B))
    ctx.note(True, "kind:" + case["kind"], "between:" + case["between"])
    W, Wf = np.asarray(t.weights, float), np.asarray(fresh.weights, float)
    ctx.close(W, Wf, "weights after re-fitting vs fresh estimator", rtol=0, atol=0)
    Y, Yf = np.asarray(t.transform(B["X"]), float), np.asarray(fresh.transform(B["X"]), float)
    sc = float(np.abs(Yf).max()) + 1e-300
    ctx.close(Y, Yf, "transform after re-fitting vs fresh estimator", rtol=1e-9, atol=1e-9 * sc)
    if case["kind"] == "whitening":
        cond = np.linalg.cond(np.cov(B["X"].T))
        sd_in = np.sqrt(np.diag(np.cov(B["X"].T))).max()
        ctx.close(Y.mean(axis=0), np.zeros(Y.shape[1]), "mean of whitened data after re-fitting", rtol=0,
                  atol=1e3 * EPS * cond * (1 + np.abs(B["X"]).max() / sd_in))
