"""C10 — i-vectors are posterior means; i-vector EM never decreases the likelihood."""
import numpy as np

from vf import gen, ref, sut
from vf.runner import Registry

REG = Registry(
    "C10",
    rule=(
        "Hypothesis draws a UBM, a total-variability matrix T (relative scale 1e-2..1e1) and covariances, "
        "statistics with fractional and zero counts (including a component that is zero in EVERY training "
        "statistic), dim_t in 1..4, 1..10 training items, 1..6 iterations, update_sigma on/off and a "
        "variance floor from 1e-10 to values that become active. Oracles: project(stats) solves "
        "(I + sum N T'S^-1 T) w = sum T'S^-1 (F - N m) (residual and independent solve), zero statistics give "
        "the zero vector, transform == list of project; the first training iteration equals a reference EM "
        "step from the same seeded T0; the marginal log-likelihood of the training set (w integrated out, "
        "computed independently) is non-decreasing in the iteration count while the floor is inactive; "
        "sigma >= floor; everything finite. Non-trivial: >=2 items with different count profiles, dim_t >= 2 "
        "and a strictly increasing likelihood."
    ),
    assumptions=[
        "the initial T comes from NumPy's global generator: the trajectory is obtained with np.random.seed(s) before each fit",
        "max_iterations=0 is outside the domain (the statement quantifies over training that happens)",
    ],
)


def g_project(draw):
    C, F = gen.dims(draw, maxC=4, maxF=3)
    r = gen.rng(draw)
    # features in any unit: standard deviations 1e-6 .. 1e2 (covariances down to 1e-12, below the default floor of
    # training, which has no say in what a projection under the machine's CURRENT sigma is)
    scales = gen.feature_scales(draw, F, lo=gen.choice(draw, [-2, -2, -6]), hi=2)
    ubm = gen.gmm_params(draw, C, F, scales=scales, kmax=5.0)
    R = gen.integer(draw, 1, 4)
    t_scale = 10.0 ** gen.choice(draw, [0, -1, 1, -2])
    T = np.sqrt(ubm["variances"])[:, :, None] * t_scale * r.normal(0, 1, (C, F, R))
    sigma = ubm["variances"] * np.exp(r.uniform(-1, 1, (C, F)))
    items = [gen.fractional_stats(draw, C, F, ubm["means"], ubm["variances"], r=r, zero_prob=gen.choice(draw, [0.0, 0.3]))
             for _ in range(gen.choice(draw, [gen.integer(draw, 1, 4), gen.integer(draw, 1, 4), gen.integer(draw, 4, 7)]))]
    if len(items) >= 4 and C >= 2 and gen.boolean(draw):
        # statistics that differ in WHICH components received data, in an order such as A B B A (anything that groups
        # the items by that pattern has to put the results back in the order of the items)
        pat = gen.choice(draw, [[0, 1, 1, 0], [0, 1, 0, 0], [0, 1, 2, 0], [1, 0, 0, 1, 2, 0]])
        for i_, it in enumerate(items):
            j_ = pat[i_ % len(pat)]
            if j_ > 0:
                for k_ in ("n", "sum_px", "sum_pxx"):
                    it[k_] = np.array(it[k_], dtype=float)
                    it[k_][(j_ - 1) % C] = 0.0
    c = {"ubm": ubm, "T": T, "sigma": sigma, "items": items, "stats_layout": gen.choice(draw, ["C", "C", "F", "strided", "lazy"])}
    # the machine's training floor: default, or a value above some / all of the covariances it currently holds
    c["variance_floor"] = float(gen.choice(draw, [1e-10, 1e-10, float(np.median(sigma)), 10.0 * float(sigma.max())]))
    if float(scales.min()) >= 3 and gen.choice(draw, [False, True]):
        # integral covariance values (and, when large enough, integral T) handed over as integer-typed arrays
        c["sigma"] = np.maximum(np.rint(sigma), 1.0)
        c["int_params"] = "sigma"
        if float(np.abs(T).max()) >= 20 and gen.boolean(draw):
            c["T"] = np.rint(T)
            c["int_params"] = "sigma+T"
    return c


@REG.obligation("project_is_posterior_mean", g_project, quick=600, thorough=12000)
def c_project(ctx, case):
    """project == unique solution of the posterior normal equations; zero statistics -> zero vector."""
    from bob.learn.em import IVectorMachine

    p = case["ubm"]
    ubm = sut.make_gmm(p)
    m = IVectorMachine(ubm, dim_t=case["T"].shape[2], variance_floor=float(case.get("variance_floor", 1e-10)))
    m.T = np.array(case["T"])
    m.sigma = np.array(case["sigma"])
    if (np.asarray(case["sigma"]) < float(case.get("variance_floor", 1e-10))).any():
        ctx.event("sigma below the training floor")
    if case.get("int_params"):
        m.sigma = np.array(case["sigma"]).astype(np.int64)
        if "T" in case["int_params"]:
            m.T = np.array(case["T"]).astype(np.int64)
    m.dim_c, m.dim_d = p["C"], p["F"]
    stats = [sut.make_stats(s, layout=case.get("stats_layout", "C")) for s in case["items"]]
    R = case["T"].shape[2]
    ctx.note(R >= 2 and p["C"] >= 2, "dim_t=%d" % R, "int:" + case["int_params"] if case.get("int_params") else None)
    outs = m.transform(stats)
    ctx.check(len(outs) == len(stats), "transform returned %d vectors for %d items" % (len(outs), len(stats)), "len")
    for s, st, o in zip(case["items"], stats, outs):
        w, L, b = ref.ivec_posterior(s["n"], s["sum_px"], case["T"], case["sigma"], p["means"])
        got = np.asarray(m.project(st), float)
        ctx.check(got.shape == (R,), "i-vector shape %s" % (got.shape,), "shape")
        sc = np.abs(w).max() + 1e-300
        ctx.close(got, w, "i-vector vs independent solve", rtol=1e-7, atol=1e-9 * sc)
        res = L @ got - b
        ctx.check(np.abs(res).max() <= 1e-8 * (np.abs(b).max() + np.abs(L).max() * sc + 1e-300),
                  "posterior normal equations not satisfied (residual %.3g)" % np.abs(res).max(), "residual")
        # transform is specified through project's result (the posterior mean), not through its arithmetic: equal up to
        # rounding, not necessarily bit for bit
        ctx.close(np.asarray(o, float), got, "transform item == project", rtol=1e-10, atol=1e-12 * (float(np.abs(got).max()) + 1e-300))
    # the machine must follow later assignments of T / sigma (no stale projection matrices)
    T2 = np.array(case["T"]) * 1.7 + 0.1 * np.sqrt(p["variances"])[:, :, None]
    sig2 = np.array(case["sigma"]) * 0.4
    for change in ("sigma", "T"):
        if change == "sigma":
            m.sigma = sig2
        else:
            m.T = T2
        curT, curS = np.asarray(m.T, float), np.asarray(m.sigma, float)
        for s_, st_ in zip(case["items"], stats):
            w_, _, _ = ref.ivec_posterior(s_["n"], s_["sum_px"], curT, curS, p["means"])
            ctx.close(np.asarray(m.project(st_), float), w_, "i-vector after %s was re-assigned" % change, rtol=1e-7,
                      atol=1e-9 * (np.abs(w_).max() + 1e-300))
    zero = sut.make_stats({"t": 0, "n": np.zeros(p["C"]), "sum_px": np.zeros((p["C"], p["F"])),
                           "sum_pxx": np.zeros((p["C"], p["F"]))})
    ctx.close(np.asarray(m.project(zero), float), np.zeros(R), "i-vector of empty statistics", rtol=0, atol=0)


def g_train(draw):
    C, F = gen.dims(draw, maxC=3, maxF=3)
    sparse = gen.choice(draw, [False, False, False, False, True])
    if sparse:
        # a UBM of a dozen components of which the training set reaches two to four
        C, F = gen.choice(draw, [9, 10, 12, 17]), min(F, 2)
    r = gen.rng(draw)
    scales = gen.feature_scales(draw, F, lo=-2, hi=2)
    ubm = gen.gmm_params(draw, C, F, scales=scales, offs=np.zeros(F))
    n_items = gen.integer(draw, 2, 10)
    # item-dependent mean shift along a low-rank direction, so that T has something to explain
    R = gen.integer(draw, 1, 3)
    Ttrue = np.sqrt(ubm["variances"])[:, :, None] * r.normal(0, 1, (C, F, R))
    dead = gen.integer(draw, 0, C - 1) if (C >= 2 and gen.choice(draw, [False, False, True])) else None
    if sparse:
        alive = sorted(set(int(v) for v in r.choice(C, size=gen.integer(draw, 2, 4), replace=False)) | {C - 1 if gen.boolean(draw) else 8})
        dead = [c for c in range(C) if c not in alive]
    items = []
    for _ in range(n_items):
        w = r.normal(0, 1, R)
        st = gen.fractional_stats(draw, C, F, ubm["means"] + Ttrue @ w, ubm["variances"],
                                  n_frames=gen.integer(draw, 2, 20), r=r, zero_prob=gen.choice(draw, [0.0, 0.0, 0.3]))
        if dead is not None:
            for k in ("n", "sum_px", "sum_pxx"):
                st[k][dead] = 0.0
        items.append(st)
    floor = gen.choice(draw, [1e-10, 1e-10, 1e-10, 1e-2 * float(scales.min()) ** 2, 3.0 * float(scales.max()) ** 2])
    return {"ubm": ubm, "items": items, "dim_t": gen.integer(draw, 1, 4), "K": gen.integer(draw, 2, 6),
            "update_sigma": gen.choice(draw, [True, True, False]), "np_seed": gen.integer(draw, 0, 99999),
            "floor": float(floor), "dead": dead, "bag": gen.choice(draw, [None, None, None, "seq", "mapped"]),
            "isolate": gen.boolean(draw),
            "npartitions": gen.integer(draw, 1, n_items)}


def train(case, k, stats=None):
    from bob.learn.em import IVectorMachine

    ubm = sut.make_gmm(case["ubm"])
    np.random.seed(case["np_seed"])
    m = IVectorMachine(ubm, dim_t=case["dim_t"], max_iterations=k, update_sigma=case["update_sigma"],
                       variance_floor=case["floor"])
    data = [sut.make_stats(s) for s in case["items"]] if stats is None else stats
    if case.get("bag"):
        # the same statistics as a Dask bag: built from the list, or with lazily produced elements
        import dask.bag as db

        from vf.props.c12 import _Getter

        npart = int(case.get("npartitions", 2))
        if case["bag"] == "mapped":
            data = db.from_sequence(list(range(len(data))), npartitions=npart).map(_Getter(data))
        else:
            data = db.from_sequence(data, npartitions=npart)
        if case.get("isolate"):
            # as on worker processes: every task and every intermediate result (the per-partition accumulators)
            # crosses a cloudpickle boundary, in a generated task order
            from vf import sched

            with sched.owned("random", int(case.get("np_seed", 0)), True):
                m.fit(data)
            return m
    m.fit(data)
    return m


@REG.obligation("em_step_and_monotone_likelihood", g_train, quick=350, thorough=7000)
def c_train(ctx, case):
    """First iteration == reference EM step; the marginal likelihood never decreases; sigma >= floor."""
    p = case["ubm"]
    C, F, R = p["C"], p["F"], case["dim_t"]
    np.random.seed(case["np_seed"])
    T0 = np.random.normal(loc=0.0, scale=1.0, size=(C, F, R))
    sig0 = np.array(p["variances"])
    items = case["items"]
    vals = [ref.ivec_marginal_ll(items, T0, sig0, p["means"])]
    floor_active = False
    # the statement's observation: T / sigma after max_iterations = 1..K on the SAME list of statistics objects
    # (half of the cases; the other half builds fresh objects for every k)
    shared = [sut.make_stats(s) for s in items] if case["np_seed"] % 2 == 0 else None
    for k in range(1, case["K"] + 1):
        m = train(case, k, shared)
        T, sig = np.asarray(m.T, float), np.asarray(m.sigma, float)
        if shared is not None and k == 1:
            # ... and projecting the training statistics themselves gives their posterior means
            for s_, st_ in zip(items, shared):
                w_, _, _ = ref.ivec_posterior(s_["n"], s_["sum_px"], T, sig, p["means"])
                ctx.close(np.asarray(m.project(st_), float), w_, "i-vector of a training statistic after fit", rtol=1e-6,
                          atol=1e-8 * (np.abs(w_).max() + 1e-300))
        ctx.check(T.shape == (C, F, R) and sig.shape == (C, F), "T/sigma shapes %s %s" % (T.shape, sig.shape), "shape")
        ctx.finite(T, "T after %d iteration(s)" % k)
        ctx.finite(sig, "sigma after %d iteration(s)" % k)
        if case["update_sigma"]:
            ctx.check((sig >= case["floor"]).all(), "sigma below its floor after %d iteration(s)" % k, "sigma-below-floor")
            if (sig <= case["floor"] * (1 + 1e-9)).any():
                floor_active = True
        else:
            ctx.close(sig, sig0, "sigma untouched with update_sigma=False", rtol=0, atol=0)
        if k == 1:
            rT, rs = ref.ivec_em_step(items, T0, sig0, p["means"], case["update_sigma"], case["floor"])
            ctx.close(T, rT, "T after the first iteration vs reference EM step", rtol=1e-6,
                      atol=1e-8 * (np.abs(rT).max() + 1e-300))
            ctx.close(sig, rs, "sigma after the first iteration vs reference EM step", rtol=1e-6,
                      atol=1e-8 * (np.abs(rs).max() + 1e-300))
        vals.append(ref.ivec_marginal_ll(items, T, sig, p["means"]))
    prof = {tuple(np.round(s["n"], 9)) for s in items}
    inc = False
    if not floor_active:
        for k in range(len(vals) - 1):
            d = vals[k + 1] - vals[k]
            ctx.stat_max("largest decrease / (1+|L|)", max(0.0, -d) / (1 + abs(vals[k])))
            if d > 1e-9 * (1 + abs(vals[k])):
                inc = True
            if d < -1e-8 * (1 + abs(vals[k])):
                ctx.fail("marginal likelihood of the training statistics fell from %.12g to %.12g at iteration %d "
                         "(update_sigma=%s)" % (vals[k], vals[k + 1], k + 1, case["update_sigma"]), "likelihood-decrease")
    ctx.note(inc and len(prof) >= 2 and R >= 2, "update_sigma" if case["update_sigma"] else "fixed_sigma",
             ("bag:" + case["bag"]) if case.get("bag") else "list",
             "floor-active" if floor_active else "floor-inactive", "zero-count-component" if case["dead"] is not None else None)
