"""C01 — GMM log-likelihood is the log of a normalised diagonal-Gaussian mixture density."""
import numpy as np
from scipy.special import logsumexp

from vf import gen, ref, sut
from vf.runner import Registry

REG = Registry(
    "C01",
    rule=(
        "Hypothesis draws (C, F, per-feature scale exponents 1e-3..1e4 mixed inside one model, "
        "offsets, weights, means, variances, scalar/vector/matrix/zero floors) and samples in three "
        "classes (bulk, mixed, tails 10..1e4 sigma from every mean); oracle = SciPy norm.logpdf + "
        "logsumexp written from the definition, single-vs-batch-vs-Dask differential, and a "
        "trapezoid integral of exp(log_likelihood) over a box covering the mixture (F in {1,2}). "
        "Non-trivial: C>=2, variances not all equal, and some sample >5 sigma from its nearest "
        "component or two components within 2 sigma. Distinct = SHA-1 of the canonical case JSON."
    ),
    assumptions=[
        "weights > 0 summing to 1, variances >= floors, float64 (the statement's domain)",
        "samples bounded so that z^2 stays far below 1e300",
        "SciPy's norm.logpdf/logsumexp are the trusted reference",
    ],
)


def _nontrivial(p, X):
    if p["C"] < 2:
        return False
    v = p["variances"]
    if np.allclose(v, v.flat[0]):
        return False
    sd = np.sqrt(v)
    z = np.abs(X[:, None, :] - p["means"][None]) / sd[None]
    far = (z.max(axis=2).min(axis=1) > 5).any()
    mu = p["means"]
    close = False
    for i in range(p["C"]):
        for j in range(i):
            if (np.abs(mu[i] - mu[j]) / np.minimum(sd[i], sd[j])).max() < 2:
                close = True
    return bool(far or close)


def build(case):
    """The machine is reached through the public setters in a generated order; variances handed to the
    setter may lie below the floors (the machine clamps them): the reference uses the VISIBLE variances."""
    from bob.learn.em import GMMMachine

    p = case["p"]
    raw = np.array(case.get("raw_variances", p["variances"]), dtype=float)
    fl = np.array(p["floors"], dtype=float) if np.ndim(p["floors"]) else float(p["floors"])
    via_ctor = bool(case.get("weights_via_constructor"))
    kw = {}
    if case.get("as_map"):
        # a MAP machine (adapted from some prior) holding these parameters is the same mixture
        prior = GMMMachine(int(p["C"]))
        prior.means = np.array(p["means"], dtype=float) * 0.5 + 1.0
        prior.variances = np.ones_like(np.array(p["means"], dtype=float))
        kw = dict(trainer="map", ubm=prior, update_variances=bool(case["as_map"] == "upd_var"))
    if via_ctor:
        kw["weights"] = np.array(p["weights"], dtype=float)
    g = GMMMachine(int(p["C"]), **kw)
    order = case.get("order", "floors_first")
    means = np.array(p["means"], dtype=float)
    if case.get("int_params"):
        # integer-typed parameter arrays are valid numeric input too (the case holds integral values)
        means = np.rint(means).astype(np.int64)
        raw = np.rint(raw).astype(np.int64)
    if order == "floors_first":
        g.variance_thresholds = fl
        g.means = means
        g.variances = raw
    else:
        g.means = means
        g.variances = raw
        if order == "floors_after_a_likelihood":
            g.log_likelihood(np.array(p["means"][:1], dtype=float))
        g.variance_thresholds = fl
    if not via_ctor:
        if case.get("weights_in_place"):
            # g.weights = 4w; g.weights /= 4   (get, in-place operator, set: the setter receives the array it holds)
            g.weights = np.array(p["weights"], dtype=float) * 4.0
            g.weights /= 4.0
        else:
            g.weights = np.array(p["weights"], dtype=float)
    return g


def g_formula(draw):
    C, F = gen.dims(draw)
    if gen.choice(draw, [False, False, False, False, True]):
        C = gen.choice(draw, [9, 11, 13, 17, 21])  # mixtures just past a block of 8 or 16 components
    p = gen.gmm_params(draw, C, F, allow_zero_floor=True, kmax=gen.choice(draw, [30.0, 1e3, 1e6]))
    pat = gen.choice(draw, [None, None, None, "tied", "permuted", "permuted"])
    if pat and C >= 2:
        # coincidences between components: the same variance vector everywhere (what training without variance
        # updates leaves), or the same values in another feature order (equal determinants, different shapes)
        rp = gen.rng(draw)
        v0 = np.array(p["variances"][0], dtype=float)
        rows = [v0] + [v0[rp.permutation(F)] if pat == "permuted" else v0 for _ in range(C - 1)]
        if pat == "permuted" and F >= 2:
            rows[1] = v0[::-1]
        p["variances"] = np.maximum(np.array(rows), np.broadcast_to(np.asarray(p["floors"], float), (C, F)))
        p["variance_pattern"] = pat
    rare = None
    if C >= 2 and gen.choice(draw, [False, False, True]):
        # "all positive weights": one component with a weight far below machine epsilon (what ML training gives a
        # component that lost its data), placed away from the others so that samples near it are scored by it alone
        r0 = gen.rng(draw)
        rare = gen.integer(draw, 0, C - 1)
        w = np.array(p["weights"], dtype=float)
        w[rare] = 10.0 ** -r0.uniform(16.5, 300.0)
        rest = [i for i in range(C) if i != rare]
        w[rest] = w[rest] / w[rest].sum() * (1.0 - w[rare])
        p["weights"] = w
        p["means"] = np.array(p["means"], copy=True)
        p["means"][rare] = p["means"][rare] + 100.0 * p["scales"] * r0.choice([-1.0, 1.0], F) * np.exp(r0.uniform(0, 2))
    n = gen.integer(draw, 1, 30 if gen.big() else 12)
    X, kind = gen.data_from(draw, p, n)
    if gen.choice(draw, [False, False, False, True]):
        # "all positive weights": mixing weights handed over on another scale (the user guide itself assigns
        # [0.8, 0.5]); the value reported is still log sum_c w_c N_c with the weights the machine holds
        p["weights"] = np.asarray(p["weights"], dtype=float) * gen.choice(draw, [1.3, 0.5, 7.0])
        p["unnormalised"] = True
    how = gen.presentation(draw)
    if how == "int":
        X = gen.integral(X)
    c = {"p": p, "X": X, "kind": kind, "rare": rare, "weights_via_constructor": gen.choice(draw, [False, False, True]),
         "as_map": gen.choice(draw, [None, None, None, "plain", "upd_var"]), "weights_in_place": gen.choice(draw, [False, False, True]),
         "order": gen.choice(draw, ["floors_first", "floors_last", "floors_after_a_likelihood"]),
         "how": how}
    if gen.choice(draw, [False, True]) and p["floor_kind"] not in ("default", "zero"):
        # some variances are handed over BELOW their floor: the machine must clamp them (and normalise accordingly)
        r = gen.rng(draw)
        raw = p["variances"].copy()
        fl = np.broadcast_to(np.asarray(p["floors"], float), raw.shape)
        m = r.random(raw.shape) < 0.4
        raw[m] = fl[m] * 10.0 ** r.uniform(-3, -0.1, int(m.sum()))
        c["raw_variances"] = raw
        p["variances"] = np.maximum(raw, fl)
    if "raw_variances" not in c and float(p["scales"].min()) >= 1 and gen.choice(draw, [False, False, True]):
        # integral means and variances, handed over as int64 arrays
        iv = np.maximum(np.rint(p["variances"]), 1.0)
        fl = np.broadcast_to(np.asarray(p["floors"], float), iv.shape)
        if (iv >= fl).all():
            p["means"] = np.rint(p["means"])
            p["variances"] = iv
            c["int_params"] = True
    return c


@REG.obligation("ll_formula", g_formula, quick=1200, thorough=40000)
def c_formula(ctx, case):
    """log_likelihood / log_weighted_likelihood / acc_stats().log_likelihood == SciPy reference."""
    p, X = case["p"], case["X"]
    g = build(case)
    w, mu, var = sut.params_of(g)
    # the machine must show max(given variances, floors)
    ctx.close(var, p["variances"], "visible variances == max(given, floors)", rtol=0, atol=0)
    ctx.note(_nontrivial(p, X), "kind:" + case["kind"], "floor:" + p["floor_kind"],
             "C>=2" if p["C"] >= 2 else "C=1", "order:" + case.get("order", "floors_first"),
             "clamped-by-floor" if "raw_variances" in case else None, "int-params" if case.get("int_params") else None,
             "weight<eps" if case.get("rare") is not None else None)
    want_lw = ref.gmm_log_weighted(X, p["weights"], p["means"], p["variances"])
    want = logsumexp(want_lw, axis=0)
    Xarg = sut.present(X, case.get("how", "plain"))
    ctx.event("input:" + case.get("how", "plain"))
    got = np.asarray(g.log_likelihood(Xarg))
    got_lw = np.asarray(g.log_weighted_likelihood(Xarg))
    ctx.finite(got, "log_likelihood")
    ctx.close(got, want, "log_likelihood", rtol=1e-10, atol=1e-9)
    ctx.close(got_lw, want_lw, "log_weighted_likelihood", rtol=1e-10, atol=1e-9)
    ctx.close(logsumexp(np.asarray(got_lw), axis=0), got, "logsumexp(weighted)==ll", rtol=1e-12, atol=1e-10)
    st = g.acc_stats(Xarg)
    ctx.close(st.log_likelihood, want.sum(), "stats.log_likelihood", rtol=1e-10, atol=1e-9 * len(X))
    ctx.check(got.shape == (X.shape[0],), "log_likelihood shape %s" % (got.shape,), "shape")
    tail = float(np.abs(want).max())
    ctx.stat_max("max |ll|", tail)


def g_shapes(draw):
    C, F = gen.dims(draw)
    # means up to 1e6 standard deviations from the origin: an expanded quadratic form would cancel there
    p = gen.gmm_params(draw, C, F, allow_zero_floor=True, kmax=gen.choice(draw, [30.0, 1e3, 1e6]))
    n = gen.integer(draw, 1, 24 if gen.big() else 10)
    if gen.choice(draw, [False, False, True]):
        n = gen.integer(draw, 11, 26)  # enough rows for a dozen or two of blocks
    X, kind = gen.data_from(draw, p, n)
    chunks = gen.composition(draw, n)
    if n >= 11 and gen.boolean(draw):
        chunks = [1] * n if gen.boolean(draw) else [1] * (n - n // 3) + [n // 3]  # many blocks
    return {"p": p, "X": X, "kind": kind, "chunks": chunks}


@REG.obligation("single_batch_dask", g_shapes, quick=250, thorough=5000)
def c_shapes(ctx, case):
    """A single vector, the same row in a batch, and a row-chunked Dask array score identically."""
    p, X, chunks = case["p"], case["X"], case["chunks"]
    g = sut.make_gmm(p)
    ctx.note(_nontrivial(p, X) and len(chunks) >= 2, "chunks>=2" if len(chunks) >= 2 else "chunks=1",
             "single-row-chunk" if 1 in chunks else None, "kind:" + case["kind"])
    batch = np.asarray(g.log_likelihood(X))
    batch_lw = np.asarray(g.log_weighted_likelihood(X))
    want = ref.gmm_logpdf(X, p["weights"], p["means"], p["variances"])
    ctx.close(batch, want, "batch ll", rtol=1e-10, atol=1e-9)
    for t in range(X.shape[0]):
        one = np.asarray(g.log_likelihood(X[t]))
        ctx.check(one.shape == (1,), "single-vector result shape %s" % (one.shape,), "shape")
        ctx.close(one[0], batch[t], "single vs batch", rtol=1e-12, atol=1e-12)
        lw1 = np.asarray(g.log_weighted_likelihood(X[t]))
        ctx.check(lw1.shape == (int(p["C"]), 1), "single-vector log_weighted_likelihood shape %s, expected (C, 1)" % (lw1.shape,),
                  "shape")
        ctx.close(lw1[:, 0], batch_lw[:, t], "single vs batch, per-component weighted log-likelihoods", rtol=1e-12, atol=1e-12)
    dX = sut.dask_rows(X, chunks)
    dl = np.asarray(g.log_likelihood(dX).compute())
    ctx.close(dl, batch, "dask vs numpy ll", rtol=1e-12, atol=1e-12)
    dlw = np.asarray(g.log_weighted_likelihood(dX).compute())
    ctx.close(dlw, np.asarray(g.log_weighted_likelihood(X)), "dask vs numpy weighted ll", rtol=1e-12, atol=1e-12)
    ctx.finite(dl, "dask log_likelihood")
    # two machines score the SAME Dask array and the lazy results are evaluated together (a log-likelihood ratio):
    # each result belongs to its own machine
    import dask

    p2 = dict(p, means=np.array(p["means"]) + 0.7 * np.sqrt(np.array(p["variances"])), weights=np.array(p["weights"])[::-1].copy())
    g2 = sut.make_gmm(p2)
    want2 = ref.gmm_logpdf(X, p2["weights"], p2["means"], p2["variances"])
    a, b = dask.compute(g.log_likelihood(dX), g2.log_likelihood(dX))
    ctx.close(np.asarray(a), want, "first machine's ll when two machines score one Dask array together", rtol=1e-10, atol=1e-9)
    ctx.close(np.asarray(b), want2, "second machine's ll when two machines score one Dask array together", rtol=1e-10, atol=1e-9)
    ratio = np.asarray((g2.log_likelihood(dX) - g.log_likelihood(dX)).compute())
    ctx.close(ratio, want2 - want, "lazy log-likelihood ratio of two machines on one Dask array", rtol=1e-9,
              atol=1e-9 * (1 + float(np.abs(want).max())))
    sa, sb = g.acc_stats(dX), g2.acc_stats(dX)
    la, lb = dask.compute(sa.log_likelihood, sb.log_likelihood)
    ctx.close(float(la), want.sum(), "first machine's statistics total (two machines, one Dask array)", rtol=1e-10, atol=1e-9 * len(X))
    ctx.close(float(lb), want2.sum(), "second machine's statistics total (two machines, one Dask array)", rtol=1e-10, atol=1e-9 * len(X))


def g_integral(draw):
    C = gen.integer(draw, 1, 4)
    F = gen.integer(draw, 1, 2)
    scales = gen.feature_scales(draw, F)
    p = gen.gmm_params(draw, C, F, scales=scales, spread=2.0, kmax=30.0)
    return {"p": p}


@REG.obligation("integrates_to_one", g_integral, quick=60, thorough=1500)
def c_integral(ctx, case):
    """The density exp(log_likelihood) integrates to one (trapezoid rule on a covering box)."""
    p = case["p"]
    g = sut.make_gmm(p)
    sd = np.sqrt(p["variances"])
    lo = (p["means"] - 12 * sd).min(axis=0)
    hi = (p["means"] + 12 * sd).max(axis=0)
    h = sd.min(axis=0) / 3.0
    npts = np.ceil((hi - lo) / h).astype(int) + 1
    if np.prod(npts.astype(float)) > 6e5:
        ctx.discard("grid too large")
    ctx.note(p["C"] >= 2 and not np.allclose(p["variances"], p["variances"].flat[0]),
             "F=%d" % p["F"])
    axes = [np.linspace(lo[d], hi[d], npts[d]) for d in range(p["F"])]
    if p["F"] == 1:
        pts = axes[0][:, None]
        dens = np.exp(np.asarray(g.log_likelihood(pts)))
        total = np.trapezoid(dens, axes[0])
    else:
        A, B = np.meshgrid(axes[0], axes[1], indexing="ij")
        pts = np.stack([A.ravel(), B.ravel()], axis=1)
        dens = np.exp(np.asarray(g.log_likelihood(pts))).reshape(A.shape)
        total = np.trapezoid(np.trapezoid(dens, axes[1], axis=1), axes[0])
    ctx.close(total, 1.0, "integral of density", rtol=1e-6, atol=0)


def g_highdim(draw):
    C = gen.integer(draw, 1, 3)
    F = gen.choice(draw, [8, 16, 24, 32, 48, 64, 23, 21])
    r = gen.rng(draw)
    e = gen.choice(draw, [-7, -5, -3, 0, 2, 3, -8])
    scales = np.full(F, 10.0 ** e) * np.exp(r.uniform(-0.5, 0.5, F))
    p = gen.gmm_params(draw, C, F, scales=scales, offs=np.zeros(F), allow_zero_floor=False)
    if gen.boolean(draw):
        # a collapsed component: every variance at the (default-size) floor
        p["floors"], p["floor_kind"] = float(np.finfo(float).eps), "default"
        p["variances"] = np.maximum(p["variances"], p["floors"])
        p["variances"][0] = p["floors"]
    X, kind = gen.data_from(draw, p, gen.integer(draw, 1, 6), kind="bulk", r=r)
    return {"p": p, "X": X, "kind": kind, "exp": int(e)}


@REG.obligation("many_features", g_highdim, quick=150, thorough=3000)
def c_highdim(ctx, case):
    """With many features the product of a component's variances leaves the double range (1e-14^24, 1e5^64):
    the normaliser must be formed from the SUM of the log-variances; values stay finite and correct."""
    p, X = case["p"], case["X"]
    g = sut.make_gmm(p)
    logprod = np.log10(p["variances"]).sum(axis=1)
    ctx.note(bool((np.abs(logprod) > 300).any()), "F=%d" % p["F"], "product-outside-double-range" if (np.abs(logprod) > 307).any() else "product-in-range")
    want_lw = ref.gmm_log_weighted(X, p["weights"], p["means"], p["variances"])
    want = logsumexp(want_lw, axis=0)
    got = np.asarray(g.log_likelihood(X))
    ctx.finite(got, "log_likelihood (many features)")
    ctx.close(got, want, "log_likelihood (many features)", rtol=1e-10, atol=1e-9)
    ctx.close(np.asarray(g.log_weighted_likelihood(X)), want_lw, "log_weighted_likelihood (many features)", rtol=1e-10, atol=1e-9)
    ctx.close(g.acc_stats(X).log_likelihood, want.sum(), "stats.log_likelihood (many features)", rtol=1e-10, atol=1e-9 * len(X))


def g_rows(draw):
    c = gen.big_rows_case(draw)
    c["floor_rel"] = gen.choice(draw, [1e-12, 1e-3])
    return c


@REG.obligation("many_rows", g_rows, quick=12, thorough=200, shard_size=4)
def c_rows(ctx, case):
    """Thousands of rows in one call (1e3 .. 7e4, so that any internal batching is exercised): the batch, a Dask
    array with a few large chunks and the definition agree row by row, and the statistics' total is their sum."""
    X, cent = gen.big_rows(case)
    k, F = cent.shape
    r = np.random.default_rng(int(case["data_seed"]) + 1)
    var = float(case["scale"]) ** 2 * np.exp(r.uniform(-1, 1, (k, F)))
    w = r.dirichlet(np.full(k, 3.0))
    p = {"C": k, "F": F, "weights": w, "means": cent, "variances": var, "floors": float(case["floor_rel"]) * var.min()}
    g = sut.make_gmm(p)
    want = ref.gmm_logpdf(X, w, cent, var)
    got = np.asarray(g.log_likelihood(X))
    ctx.note(max(case["chunks"]) > 4096, "n>%d" % (10 ** int(np.log10(X.shape[0]))))
    ctx.check(got.shape == (X.shape[0],), "log_likelihood shape %s" % (got.shape,), "shape")
    ctx.close(got, want, "log_likelihood of many rows", rtol=1e-10, atol=1e-9)
    dl = np.asarray(g.log_likelihood(sut.dask_rows(X, case["chunks"])).compute())
    ctx.close(dl, got, "dask vs numpy ll (many rows)", rtol=1e-12, atol=1e-12)
    st = g.acc_stats(X)
    ctx.close(st.log_likelihood, want.sum(), "stats.log_likelihood (many rows)", rtol=1e-10, atol=1e-9 * len(X))
    ctx.check(int(st.t) == X.shape[0], "stats.t is %r for %d rows" % (st.t, X.shape[0]), "t")
