"""C13 — trained models are valid: finite, weights on the simplex, variances above floors."""
import numpy as np

from vf import gen, ref, sut
from vf.runner import Registry

EPS = np.finfo(float).eps

REG = Registry(
    "C13",
    rule=(
        "Hypothesis builds DEGENERATE training sets by construction (duplicated rows, constant columns, fewer "
        "distinct rows than components, far outliers, all-identical rows, an initial component/centroid 1e3 "
        "sigma from all data) for k-means, GMM ML, GMM MAP, k-means-initialised GMM and the i-vector trainer "
        "(with components of zero count), all update switches, scalar/vector/matrix floors, 1..6 iterations; "
        "the validity predicate is evaluated AFTER EVERY ITERATION: all parameters finite, GMM weights >= 0 "
        "and |sum w - 1| <= C*count_floor/t + 1e-12, variances >= floors and > 0, i-vector sigma >= floor, "
        "log-likelihood of every training row finite. Non-trivial: some component/cluster has total "
        "responsibility < 1e-6, or fewer distinct rows than components, or a zero-variance column."
    ),
    assumptions=[
        "variance floors strictly positive (machine epsilon or larger) in every training run",
        "feature magnitudes bounded by 1e6 so that (x-mu)^2/floor stays far below overflow",
    ],
)


def degenerate_rows(draw, k_hint):
    r = gen.rng(draw)
    F = gen.integer(draw, 1, 4)
    n = gen.integer(draw, 1, 16 if not gen.big() else 30)
    scale = 10.0 ** gen.integer(draw, -3, 3)
    base = r.normal(0, 1, (n, F))
    kinds = []
    mode = gen.choice(draw, ["few_distinct", "identical", "dupes", "const_col", "outlier", "plain"])
    if mode == "few_distinct":
        d = gen.integer(draw, 1, max(1, k_hint - 1))
        pool = r.normal(0, 1, (d, F))
        base = pool[r.integers(0, d, n)]
    elif mode == "identical":
        base = np.repeat(r.normal(0, 1, (1, F)), n, axis=0)
    elif mode == "dupes":
        for _ in range(max(1, n // 2)):
            base[r.integers(0, n)] = base[r.integers(0, n)]
    elif mode == "const_col":
        base[:, gen.integer(draw, 0, F - 1)] = gen.choice(draw, [0.0, 1.0, -3.0])
    elif mode == "outlier":
        base[r.integers(0, n)] += 1e3 * r.choice([-1.0, 1.0], F)
    kinds.append(mode)
    if gen.boolean(draw) and mode != "const_col" and F >= 2:
        base[:, 0] = base[0, 0]
        kinds.append("const_col")
    offset = scale * gen.choice(draw, [0.0, 0.0, 5.0, -50.0])
    return offset + scale * base, scale, kinds


def n_distinct(X):
    return len({tuple(row) for row in X.tolist()})


def check_gmm_valid(ctx, g, X, count_floor, floors, what):
    w, mu, var = sut.params_of(g)
    for name, a in (("weights", w), ("means", mu), ("variances", var)):
        ctx.finite(a, "%s %s" % (what, name))
    ctx.check((w >= 0).all(), "%s: negative weight %r" % (what, w.min()), "weights-negative")
    C = len(w)
    ctx.check(abs(w.sum() - 1) <= C * count_floor / max(X.shape[0], 1) + 1e-12,
              "%s: weights sum to %r" % (what, w.sum()), "weights-sum")
    ctx.check((var >= np.asarray(floors) * (1 - 1e-15)).all(), "%s: variance below its floor" % what, "variance-below-floor")
    ctx.check((var > 0).all(), "%s: non-positive variance" % what, "variance-nonpositive")
    thr = np.broadcast_to(np.asarray(g.variance_thresholds, float), var.shape)
    ctx.check((var >= thr).all(), "%s: variances below variance_thresholds" % what, "variance-below-floor")
    ll = np.asarray(g.log_likelihood(X))
    ctx.finite(ll, "%s log-likelihood of the training rows" % what)
    # the same rows handed over as a Dask array (two row blocks when there are two rows)
    n = X.shape[0]
    dl = np.asarray(g.log_likelihood(sut.dask_rows(X, [n] if n < 2 else [n // 2, n - n // 2])).compute())
    ctx.finite(dl, "%s log-likelihood of the training rows (Dask input)" % what)
    ctx.close(dl, ll, "%s log-likelihood: Dask input vs NumPy input" % what, rtol=1e-9, atol=1e-9)
    if (w == 0).any():
        ctx.event("component with weight exactly 0")


# ---------------------------------------------------------------------------- k-means

def g_km(draw):
    k = gen.choice(draw, [3, 2, 4, 5, 1])
    X, scale, kinds = degenerate_rows(draw, k)
    r = gen.rng(draw)
    style = gen.choice(draw, ["rows", "far", "random", "k-means||", "rows"])
    if style in ("rows", "far"):
        init = X[r.integers(0, X.shape[0], k)] + scale * r.normal(0, 0.1, (k, X.shape[1]))
        if style == "far":
            init[gen.integer(draw, 0, k - 1)] += 1e3 * scale
        ini = {"method": "array", "init": init, "seed": 0}
    else:
        ini = {"method": style, "init": None, "seed": gen.integer(draw, 0, 999)}
    return {"X": X, "k": k, "scale": scale, "kinds": kinds, "init": ini, "K": gen.integer(draw, 1, 5),
            "dask": gen.boolean(draw), "chunks": gen.composition(draw, X.shape[0], max_parts=4),
            "floor": gen.choice(draw, [EPS, 1e-6 * scale**2])}


def km_for(case, cap):
    from bob.learn.em import KMeansMachine

    ini = case["init"]
    method = np.array(ini["init"], copy=True) if ini["method"] == "array" else ini["method"]
    return KMeansMachine(case["k"], init_method=method, max_iter=cap, convergence_threshold=None,
                         random_state=int(ini["seed"]))


@REG.obligation("kmeans_and_kmeans_gmm_valid", g_km, quick=400, thorough=8000)
def c_km(ctx, case):
    """k-means centroids, the cluster statistics and the GMM initialised (and then trained) from them stay finite."""
    from bob.learn.em import GMMMachine

    X, k, K = case["X"], case["k"], case["K"]
    if case["init"]["method"] != "array" and X.shape[0] < k:
        ctx.discard("seeded initialisers need at least k rows")
    data = sut.dask_rows(X, case["chunks"]) if case["dask"] else X
    empty = False
    for cap in range(0, K + 1):
        m = km_for(case, cap)
        m.fit(data)
        cent = np.asarray(m.centroids_, float)
        ctx.finite(cent, "centroids after %d iteration(s)" % cap)
        if cap >= 1:
            ctx.finite(m.average_min_distance, "average_min_distance after %d iteration(s)" % cap)
        lab = np.argmin(ref.sq_dists(X, cent), axis=0)
        if len(set(lab.tolist())) < k:
            empty = True
        v, w = m.get_variances_and_weights_for_each_cluster(data)
        ctx.finite(v, "cluster variances")
        ctx.finite(w, "cluster weights")
        ctx.close(np.sum(w), 1.0, "cluster weights sum", rtol=1e-12)
        ctx.check((np.asarray(w) >= 0).all(), "negative cluster weight", "weights-negative")
    ctx.note(empty or n_distinct(X) < k or "const_col" in case["kinds"], "empty-cluster" if empty else None,
             "distinct<k" if n_distinct(X) < k else None, "init:" + case["init"]["method"],
             "dask" if case["dask"] else "numpy", *["data:" + s for s in case["kinds"]])
    for steps in range(0, 3):
        g = GMMMachine(k, k_means_trainer=km_for(case, K), max_fitting_steps=steps, convergence_threshold=None,
                       update_means=True, update_variances=True, update_weights=True,
                       mean_var_update_threshold=case["floor"])
        g.fit(data)
        check_gmm_valid(ctx, g, X, case["floor"], case["floor"], "k-means-initialised GMM after %d step(s)" % steps)


# ---------------------------------------------------------------------------- GMM ML / MAP

def g_gmm(draw):
    C = gen.choice(draw, [3, 2, 4, 1, 5])
    X, scale, kinds = degenerate_rows(draw, C)
    r = gen.rng(draw)
    F = X.shape[1]
    means = X[r.integers(0, X.shape[0], C)] + scale * r.normal(0, 0.5, (C, F))
    starved = C >= 2 and gen.boolean(draw)
    if starved:
        means[gen.integer(draw, 0, C - 1)] += 1e3 * scale * r.choice([-1.0, 1.0], F)
    variances = scale**2 * np.exp(r.uniform(-2, 1, (C, F)))
    fk, fv = gen.floors(draw, C, F, np.full(F, scale), r)
    variances = np.maximum(variances, fv)
    init = {"C": C, "F": F, "weights": gen.weights(draw, C, r), "means": means, "variances": variances,
            "floor_kind": fk, "floors": fv if np.ndim(fv) else float(fv)}
    upd = [bool(u) for u in gen.choice(draw, [(1, 1, 1), (0, 1, 0), (1, 1, 0), (0, 1, 1), (1, 0, 1), (1, 0, 0),
                                              (0, 0, 1)])]
    trainer = gen.choice(draw, ["ml", "map", "ml"])
    unset = None
    if trainer == "ml" and gen.choice(draw, [False, False, True]):
        # means and floors configured by hand, variances left to the documented fallback (1.0) of fit; the floors
        # may lie above that fallback
        shape = gen.choice(draw, ["scalar", "vector", "matrix"])
        vals = r.choice([1e-3, 0.5, 2.0, 4.0, 25.0], size=(C, F))
        unset = float(vals[0, 0]) if shape == "scalar" else (vals[0] if shape == "vector" else vals)
    return {"X": X, "init": init, "upd": upd, "kinds": kinds, "starved": bool(starved), "trainer": trainer,
            "variances_unset_floors": unset,
            "K": gen.integer(draw, 1, 6), "count_floor": gen.choice(draw, [EPS, 1e-6, 1e-3]),
            "relevance": float(10.0 ** gen.integer(draw, -3, 3)), "dask": gen.boolean(draw),
            # MAP with fixed ratios: one scalar, or one ratio per component (an array)
            "map_alpha": gen.choice(draw, [None, None, "scalar", "array"]), "alpha_values": r.uniform(0.05, 0.95, C),
            "chunks": gen.composition(draw, X.shape[0], max_parts=4)}


@REG.obligation("gmm_training_valid", g_gmm, quick=600, thorough=12000)
def c_gmm(ctx, case):
    """ML and MAP training on degenerate data keep the model valid after every iteration."""
    X, init, upd = case["X"], case["init"], case["upd"]
    data = sut.dask_rows(X, case["chunks"]) if case["dask"] else X
    kw = dict(convergence_threshold=None, max_fitting_steps=1, update_means=upd[0], update_variances=upd[1],
              update_weights=upd[2], mean_var_update_threshold=case["count_floor"])
    unset = case.get("variances_unset_floors")
    if unset is not None:
        g = sut.GMMMachine(n_gaussians=init["C"], trainer="ml", **kw)
        g.variance_thresholds = np.array(unset, dtype=float) if np.ndim(unset) else float(unset)
        g.means = np.array(init["means"], dtype=float)
        g.weights = np.array(init["weights"], dtype=float)
        floors_now = np.broadcast_to(np.asarray(unset, float), init["means"].shape)
        for k in range(1, case["K"] + 1):
            g.fit(data)
            check_gmm_valid(ctx, g, X, case["count_floor"], floors_now, "model (variances left to fit's fallback) after iteration %d" % k)
        ctx.note(bool((floors_now > 1).any()), "variances-unset", "floor>1" if (floors_now > 1).any() else "floor<=1",
                 "upd:%d%d%d" % tuple(int(u) for u in upd), "dask" if case["dask"] else "numpy")
        return
    if case["trainer"] == "ml":
        g = sut.make_gmm(init, trainer="ml", **kw)
    else:
        ubm = sut.make_gmm(init)
        mk = dict(map_relevance_factor=case["relevance"])
        if case.get("map_alpha") == "scalar":
            mk = dict(map_relevance_factor=None, map_alpha=float(case["alpha_values"][0]))
        elif case.get("map_alpha") == "array":
            mk = dict(map_relevance_factor=None, map_alpha=np.array(case["alpha_values"], dtype=float))
        g = sut.GMMMachine(n_gaussians=init["C"], trainer="map", ubm=ubm, **mk, **kw)
    s = ref.gmm_stats(X, init["weights"], init["means"], init["variances"])
    low = bool((s["n"] < 1e-6).any())
    ctx.note(low or n_distinct(X) < init["C"] or "const_col" in case["kinds"], "trainer:" + case["trainer"],
             ("map-ratio:" + case["map_alpha"]) if (case["trainer"] == "map" and case.get("map_alpha")) else None,
             "upd:%d%d%d" % tuple(int(u) for u in upd), "starved-component" if low else None,
             "distinct<C" if n_distinct(X) < init["C"] else None, "floor:" + init["floor_kind"],
             "dask" if case["dask"] else "numpy", *["data:" + s_ for s_ in case["kinds"]])
    check_gmm_valid(ctx, g, X, case["count_floor"], init["floors"], "initial model")
    for k in range(1, case["K"] + 1):
        g.fit(data)
        check_gmm_valid(ctx, g, X, case["count_floor"], init["floors"], "%s model after iteration %d" % (case["trainer"], k))


# ---------------------------------------------------------------------------- many features

def g_wide(draw):
    r = gen.rng(draw)
    F = gen.integer(draw, 16, 48)
    C = gen.choice(draw, [2, 3, 4])
    n = gen.integer(draw, 3, 24)
    scale = 10.0 ** gen.choice(draw, [0, 0, -3, 3, 7, -6])
    kind = gen.choice(draw, ["const_cols", "few_distinct", "plain", "dupes"])
    base = r.normal(0, 1, (n, F))
    if kind == "const_cols":
        m = r.random(F) < gen.choice(draw, [0.5, 0.9, 1.0])
        base[:, m] = r.normal(0, 1, int(m.sum()))[None, :]
    elif kind == "few_distinct":
        d = gen.integer(draw, 1, C)
        base = r.normal(0, 1, (d, F))[r.integers(0, d, n)]
    elif kind == "dupes":
        for _ in range(n):
            base[r.integers(0, n)] = base[r.integers(0, n)]
    X = scale * (gen.choice(draw, [0.0, 5.0]) + base)
    return {"X": X, "C": C, "scale": scale, "kind": kind, "K": gen.integer(draw, 1, 4),
            "init": gen.choice(draw, ["explicit", "kmeans"]), "trainer": gen.choice(draw, ["ml", "ml", "map"]),
            "seed": gen.integer(draw, 0, 999), "upd": [bool(u) for u in gen.choice(draw, [(1, 1, 1), (0, 1, 0), (1, 1, 0)])]}


@REG.obligation("many_features_valid", g_wide, quick=150, thorough=3000)
def c_wide(ctx, case):
    """16..48 features (products of variances leave the double range although every variance is an ordinary number,
    e.g. 21 features at the default floor or 24 features of magnitude 1e7): the trained GMM stays valid and the
    log-likelihood of the training rows is finite and equals the SciPy value for the parameters the machine shows."""
    from bob.learn.em import GMMMachine, KMeansMachine
    from scipy.special import logsumexp

    X, C = case["X"], int(case["C"])
    n, F = X.shape
    r = np.random.default_rng(int(case["seed"]))
    kw = dict(convergence_threshold=None, max_fitting_steps=1, update_means=case["upd"][0], update_variances=case["upd"][1],
              update_weights=case["upd"][2])
    sc = float(case["scale"])
    means = X[r.integers(0, n, C)] + sc * r.normal(0, 0.5, (C, F))
    init = {"C": C, "F": F, "weights": np.full(C, 1.0 / C), "means": means, "variances": np.full((C, F), sc * sc)}
    if case["init"] == "kmeans" and case["trainer"] == "ml":
        km = KMeansMachine(C, init_method=np.array(means, copy=True), max_iter=2, convergence_threshold=None)
        g = GMMMachine(C, k_means_trainer=km, **kw)
    elif case["trainer"] == "map":
        g = GMMMachine(C, trainer="map", ubm=sut.make_gmm(init, floors=False), **kw)
    else:
        g = sut.make_gmm(init, floors=False, trainer="ml", **kw)
    ctx.note(True, "F>=21" if F >= 21 else "F<21", "kind:" + case["kind"], "scale:1e%d" % int(np.log10(sc)),
             "init:" + case["init"], "trainer:" + case["trainer"])
    for k in range(1, int(case["K"]) + 1):
        g.fit(X)
        what = "model after iteration %d (%d features)" % (k, F)
        check_gmm_valid(ctx, g, X, EPS, np.asarray(g.variance_thresholds, float), what)
        w, mu, var = sut.params_of(g)
        if (w > 0).all():
            want = logsumexp(ref.gmm_log_weighted(X, w, mu, var), axis=0)
            if np.isfinite(want).all():
                got = np.asarray(g.log_likelihood(X), float)
                ctx.close(got, want, "log-likelihood of the training rows under the " + what, rtol=1e-9,
                          atol=1e-9 * (1 + float(np.abs(want).max())))


# ---------------------------------------------------------------------------- i-vector

def g_iv(draw):
    C, F = gen.dims(draw, maxC=4, maxF=3)
    r = gen.rng(draw)
    scales = gen.feature_scales(draw, F, lo=-2, hi=2)
    ubm = gen.gmm_params(draw, C, F, scales=scales, offs=np.zeros(F))
    n_items = gen.integer(draw, 1, 8)
    dead_all = C >= 2 and gen.boolean(draw)
    dead = gen.integer(draw, 0, C - 1) if dead_all else None
    stats = []
    for _ in range(n_items):
        st = gen.fractional_stats(draw, C, F, ubm["means"], ubm["variances"], n_frames=gen.integer(draw, 1, 10), r=r,
                                  zero_prob=0.3)
        if dead is not None:
            st["n"][dead] = 0.0
            st["sum_px"][dead] = 0.0
            st["sum_pxx"][dead] = 0.0
        stats.append(st)
    return {"ubm": ubm, "stats": stats, "dim_t": gen.integer(draw, 1, 3), "K": gen.integer(draw, 1, 5),
            "update_sigma": gen.choice(draw, [True, True, False]), "np_seed": gen.integer(draw, 0, 9999),
            "floor": gen.choice(draw, [1e-10, 1e-10, 1e-3 * float(scales.min()) ** 2, 10.0 * float(scales.max()) ** 2]),
            "dead": dead}


@REG.obligation("ivector_training_valid", g_iv, quick=300, thorough=6000)
def c_iv(ctx, case):
    """T and sigma stay finite and sigma >= floor after every iteration, also with zero-count components."""
    from bob.learn.em import IVectorMachine

    ubm = sut.make_gmm(case["ubm"])
    stats = [sut.make_stats(s) for s in case["stats"]]
    tot = sum(s["n"] for s in case["stats"])
    ctx.note(bool((tot < 1e-6).any()), "zero-count-component" if (tot == 0).any() else None,
             "update_sigma" if case["update_sigma"] else "fixed_sigma", "items=%d" % len(stats))
    for k in range(1, case["K"] + 1):
        np.random.seed(case["np_seed"])
        m = IVectorMachine(ubm, dim_t=case["dim_t"], max_iterations=k, update_sigma=case["update_sigma"],
                           variance_floor=case["floor"])
        m.fit(stats)
        ctx.finite(m.T, "T after %d iteration(s)" % k)
        ctx.finite(m.sigma, "sigma after %d iteration(s)" % k)
        if case["update_sigma"]:
            ctx.check((np.asarray(m.sigma) >= case["floor"]).all(), "sigma below the variance floor after %d iteration(s)" % k,
                      "sigma-below-floor")
        else:
            ctx.close(m.sigma, case["ubm"]["variances"], "sigma kept when update_sigma=False", rtol=0, atol=0)
        for s in stats:
            ctx.finite(m.project(s), "i-vector of a training item")
