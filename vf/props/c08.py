"""C08 — linear scoring is the exact first-order log-likelihood ratio around the UBM."""
import numpy as np

from vf import gen, ref, sut
from vf.runner import Registry

REG = Registry(
    "C08",
    rule=(
        "Hypothesis draws a UBM (C != F in most cases), 1..4 models given as machines / one 2-D array / a "
        "3-D stack / a list of arrays, 1..5 test statistics (from frames, fractional, zero-frame; a single "
        "GMMStats or a list), channel offsets in {0, one (C,F) array, a (T,C,F) stack}, normalisation on/off, "
        "and the UBM passed as the prior itself or as a MAP machine adapted from it. Oracles: the triple-loop "
        "reference; shape (n_models, n_tests); zero for the UBM itself; homogeneity and additivity in the model "
        "offset; additivity over test statistics (no normalisation); zero-frame statistics give 0 not NaN; and "
        "the derivative identity: Richardson-extrapolated central differences of sum_t log p(x_t) as the UBM "
        "means move towards the model equal the un-normalised score of the UBM's statistics. Non-trivial: "
        "C != F, >=2 tests with different t, non-zero offsets."
    ),
    assumptions=["finite-difference tolerance 1e-6 relative to sum |terms| (measured worst error ~2e-9)"],
)


# sums of products at the very bottom of the float range round to multiples of 5e-324, not relative to their size
SUBNORMAL = 1e-300


def g_score(draw):
    C, F = gen.dims(draw, maxC=5, maxF=4)
    r = gen.rng(draw)
    scales = gen.feature_scales(draw, F, lo=-2, hi=3)
    ubm = gen.gmm_params(draw, C, F, scales=scales, kmax=10.0)
    M = gen.integer(draw, 1, 4)
    models = ubm["means"][None] + scales[None, None, :] * r.normal(0, 1, (M, C, F))
    T = gen.integer(draw, 1, 5)
    stats = []
    for _ in range(T):
        kind = gen.choice(draw, ["frac", "frames", "frac", "zero"])
        if kind == "zero":
            stats.append({"t": 0, "n": np.zeros(C), "sum_px": np.zeros((C, F)), "sum_pxx": np.zeros((C, F))})
        elif kind == "frac":
            stats.append(gen.fractional_stats(draw, C, F, ubm["means"], ubm["variances"], r=r,
                                              zero_prob=gen.choice(draw, [0.0, 0.4])))
        else:
            X, _ = gen.data_from(draw, ubm, gen.integer(draw, 1, 10), kind="bulk", r=r)
            s = ref.gmm_stats(X, ubm["weights"], ubm["means"], ubm["variances"])
            stats.append({"t": s["t"], "n": s["n"], "sum_px": s["sum_px"], "sum_pxx": s["sum_pxx"]})
    if C >= 2 and gen.choice(draw, [False, False, False, True]):
        # a component that is nearly unreachable for this item (a few dozen standard deviations away): its
        # posterior mass is a number at the very bottom of the float range, not an exact zero
        for s in stats:
            if s["t"] and gen.boolean(draw):
                c = gen.integer(draw, 0, C - 1)
                m = float(np.sum(s["n"]))
                s["n"] = np.array(s["n"], dtype=float)
                s["sum_px"] = np.array(s["sum_px"], dtype=float)
                s["sum_pxx"] = np.array(s["sum_pxx"], dtype=float)
                tiny = max(m, 1.0) * 10.0 ** r.uniform(-322, -290)
                x = ubm["means"][c] + scales * r.normal(0, 1, F)
                s["n"][c], s["sum_px"][c], s["sum_pxx"][c] = tiny, tiny * x, tiny * x * x
    same_as = list(range(T))
    if T >= 2 and gen.choice(draw, [False, False, True]):
        # the very same statistics object listed at two positions (a probe scored under two channel hypotheses,
        # a cohort that repeats an item): every position is an item of its own
        i = gen.integer(draw, 0, T - 2)
        j = gen.integer(draw, i + 1, T - 1)
        stats[j] = stats[i]
        same_as[j] = i
    off_kind = gen.choice(draw, ["none", "one", "stack", "one"] + (["stack", "stack"] if same_as != list(range(T)) else []))
    if off_kind == "none":
        offsets = None
    elif off_kind == "one":
        offsets = scales[None, :] * r.normal(0, 0.5, (C, F))
    else:
        offsets = scales[None, None, :] * r.normal(0, 0.5, (T, C, F))
    return {"ubm": ubm, "models": models, "stats": stats, "offsets": offsets, "same_as": same_as,
            "model_form": gen.choice(draw, ["machines", "stack", "list", "single2d"]),
            "stats_form": gen.choice(draw, ["list", "single"]),
            "normalise": gen.boolean(draw),
            # the flag as callers hold it: a Python bool, the np.bool_ a comparison or an HDF5 read returns, or 0 / 1
            "flag_as": gen.choice(draw, ["bool", "bool", "np", "int"]),
            "ubm_count_floor": gen.choice(draw, [float(np.finfo(float).eps)] * 3 + [1.0, 4.0]), "ubm_as_map": gen.choice(draw, [False, True, "ml_with_seed", False]),
            "stats_layout": gen.choice(draw, ["C", "C", "F", "strided"]),
            # statistics whose arrays are still lazy (what acc_stats returns for a Dask array), possibly mixed with
            # in-memory ones in one list
            "lazy": [gen.choice(draw, [False, False, True]) for _ in range(T)] if gen.choice(draw, [False, True]) else [False] * T}


def _lazy(s):
    import dask.array as da

    s.n = da.from_array(np.ascontiguousarray(s.n), chunks=-1)
    s.sum_px = da.from_array(np.ascontiguousarray(s.sum_px), chunks=(1, -1))
    s.sum_pxx = da.from_array(np.ascontiguousarray(s.sum_pxx), chunks=-1)
    return s


def call(case, ubm_machine, models=None, stats=None, offsets="case", normalise=None):
    from bob.learn.em import linear_scoring

    p = case["ubm"]
    models = case["models"] if models is None else models
    stats = case["stats"] if stats is None else stats
    form = case["model_form"]
    if form == "single2d" and len(models) > 1:
        form = "stack"
    if form == "machines":
        marg = []
        for mm in models:
            q = dict(p, means=mm)
            marg.append(sut.make_gmm(q))
    elif form == "stack":
        marg = np.array(models)
    elif form == "list":
        marg = [np.array(mm) for mm in models]
    else:
        marg = np.array(models[0])
    sobj = [sut.make_stats(s, layout=case.get("stats_layout", "C")) for s in stats]
    lazy = case.get("lazy") or []
    if stats is case["stats"] or len(stats) == len(lazy):
        sobj = [_lazy(s) if (i < len(lazy) and lazy[i]) else s for i, s in enumerate(sobj)]
    same_as = case.get("same_as")
    if stats is case["stats"] and same_as and len(same_as) == len(sobj):
        sobj = [sobj[same_as[i]] for i in range(len(sobj))]
    sarg = sobj[0] if (case["stats_form"] == "single" and len(sobj) == 1) else sobj
    off = case["offsets"] if isinstance(offsets, str) else offsets
    kw = {}
    if off is not None:
        kw["test_channel_offsets"] = np.array(off)
    norm = case["normalise"] if normalise is None else normalise
    norm = {"np": np.bool_(norm), "int": int(norm)}.get(case.get("flag_as", "bool"), bool(norm))
    return np.asarray(linear_scoring(marg, ubm_machine, sarg, frame_length_normalization=norm, **kw))


def ubm_arg(case):
    # the UBM's training settings (here: its count floor, "at least N effective frames") have no say in scoring
    ubm = sut.make_gmm(case["ubm"], mean_var_update_threshold=float(case.get("ubm_count_floor", np.finfo(float).eps)))
    if case["ubm_as_map"] == "ml_with_seed":
        # an ML machine warm-started from another GMM keeps that GMM in its `ubm` attribute; it is NOT a MAP
        # machine, so linear scoring is relative to ITS OWN parameters
        seed_p = dict(case["ubm"], means=np.array(case["ubm"]["means"]) - 0.9, variances=np.array(case["ubm"]["variances"]) * 0.6)
        m = sut.GMMMachine(n_gaussians=case["ubm"]["C"], trainer="ml", ubm=sut.make_gmm(seed_p))
        m.variance_thresholds = ubm.variance_thresholds
        m.means, m.variances, m.weights = np.array(ubm.means), np.array(ubm.variances), np.array(ubm.weights)
        return m
    if case["ubm_as_map"]:
        adapted = sut.GMMMachine(n_gaussians=case["ubm"]["C"], trainer="map", ubm=ubm)
        # a MAP machine whose OWN means and variances differ from its prior's (as after adaptation with
        # update_variances): linear scoring must use the prior's parameters throughout
        adapted.means = np.array(case["ubm"]["means"]) + 0.37
        adapted.variances = np.array(case["ubm"]["variances"]) * 1.7
        return adapted
    return ubm


@REG.obligation("formula_all_input_forms", g_score, quick=800, thorough=20000)
def c_formula(ctx, case):
    """linear_scoring == triple-loop reference for every accepted form of models, statistics, offsets and UBM."""
    p = case["ubm"]
    C, F = p["C"], p["F"]
    got = call(case, ubm_arg(case))
    want = ref.linear_score(case["models"], p["means"], p["variances"], case["stats"], case["offsets"],
                            case["normalise"])
    ts = [s["t"] for s in case["stats"]]
    ctx.note(C != F and len(set(ts)) >= 2 and case["offsets"] is not None,
             "models:" + case["model_form"], "stats:" + case["stats_form"],
             "offsets:" + ("none" if case["offsets"] is None else ("stack" if np.ndim(case["offsets"]) == 3 else "one")),
             "normalised" if case["normalise"] else "raw", "ubm:%s" % (case["ubm_as_map"] if isinstance(case["ubm_as_map"], str) else ("map" if case["ubm_as_map"] else "prior")),
             "zero-frame" if 0 in ts else None, "C!=F" if C != F else "C==F",
             ("lazy-stats:mixed" if not all(case["lazy"]) else "lazy-stats:all") if any(case.get("lazy") or []) else None)
    ctx.check(got.shape == want.shape, "score shape %s, expected (n_models, n_tests) = %s" % (got.shape, want.shape), "shape")
    # scale for the absolute tolerance: sum of |terms|
    mag = 0.0
    for s in case["stats"]:
        off = 0 if case["offsets"] is None else np.abs(case["offsets"]).max()
        b = np.abs(s["sum_px"]) + s["n"][:, None] * (np.abs(p["means"]) + off)
        a = np.abs(case["models"] - p["means"][None]).max(axis=0) / p["variances"]
        mag = max(mag, float((a * b).sum()) / (max(s["t"], 1) if case["normalise"] else 1))
    ctx.close(got, want, "linear score", rtol=1e-10, atol=1e-12 * mag + SUBNORMAL)
    ctx.finite(got, "linear score")


@REG.obligation("algebraic_laws", g_score, quick=500, thorough=10000)
def c_algebra(ctx, case):
    """Zero for the UBM itself; homogeneous and additive in the model offset; additive over test statistics."""
    p = case["ubm"]
    ubm = ubm_arg(case)
    C, F = p["C"], p["F"]
    ctx.note(C != F and len(case["stats"]) >= 2, "normalised" if case["normalise"] else "raw")
    base = call(case, ubm)
    scale = float(np.abs(base).max()) + 1e-300
    mu = p["means"]
    # the UBM scores zero against everything
    z = call(case, ubm, models=np.array([mu]))
    ctx.close(z, np.zeros_like(z), "score of the UBM itself", rtol=0, atol=0)
    # homogeneity: ubm + s*delta
    s = 2.5
    scaled = call(case, ubm, models=mu[None] + s * (case["models"] - mu[None]))
    ctx.close(scaled, s * base, "score(ubm + s*delta) == s*score(ubm + delta)", rtol=1e-9, atol=1e-12 * scale + SUBNORMAL)
    # ... also for a model that is only just off the UBM (a lightly adapted client): the score is linear, not zero.
    # The offset is built per entry relative to that entry's own mean, so that it survives the rounding of mu + delta
    tiny = 1e-7 * np.maximum(np.abs(mu), 1e-3 * np.sqrt(p["variances"]))[None] * np.sign(case["models"] - mu[None] + 1e-300)
    m_tiny = mu[None] + tiny
    got_tiny = call(case, ubm, models=m_tiny)
    want_tiny = ref.linear_score(m_tiny, p["means"], p["variances"], case["stats"], case["offsets"], case["normalise"])
    mag_t = float(np.abs(want_tiny).max()) + 1e-300
    ctx.close(got_tiny, want_tiny, "score of a model 1e-7 (relative) off the UBM", rtol=1e-6, atol=1e-6 * mag_t + SUBNORMAL)
    # additivity in delta
    if len(case["models"]) >= 2:
        d0 = case["models"][0] - mu
        d1 = case["models"][1] - mu
        both = call(case, ubm, models=np.array([mu + d0 + d1]))
        ctx.close(both[0], base[0] + base[1], "score(ubm+d0+d1) == score(ubm+d0)+score(ubm+d1)", rtol=1e-9,
                  atol=1e-12 * scale * 4 + SUBNORMAL)
    # additivity over test statistics (no normalisation, common offset)
    if len(case["stats"]) >= 2 and (case["offsets"] is None or np.ndim(case["offsets"]) == 2):
        a, b = case["stats"][0], case["stats"][1]
        summed = {"t": a["t"] + b["t"], "n": a["n"] + b["n"], "sum_px": a["sum_px"] + b["sum_px"],
                  "sum_pxx": a["sum_pxx"] + b["sum_pxx"]}
        raw = call(case, ubm, stats=[a, b, summed], normalise=False)
        ctx.close(raw[:, 2], raw[:, 0] + raw[:, 1], "score(a+b) == score(a)+score(b)", rtol=1e-9,
                  atol=1e-12 * float(np.abs(raw).max() + 1e-300) * 4)
        ctx.event("stat-additivity")


def g_fd(draw):
    C, F = gen.dims(draw, maxC=4, maxF=3)
    r = gen.rng(draw)
    scales = gen.feature_scales(draw, F, lo=-2, hi=2)
    ubm = gen.gmm_params(draw, C, F, scales=scales, kmax=10.0)
    n = gen.integer(draw, 1, 12)
    X, _ = gen.data_from(draw, ubm, n, kind="bulk", r=r)
    delta = np.sqrt(ubm["variances"]) * r.normal(0, 1, (C, F))
    return {"ubm": ubm, "X": X, "delta": delta}


@REG.obligation("derivative_identity", g_fd, quick=250, thorough=5000)
def c_fd(ctx, case):
    """d/d eps sum_t log p(x_t | UBM means + eps*(model-UBM)) at 0 == un-normalised linear score of the UBM statistics."""
    from bob.learn.em import linear_scoring

    p, X, delta = case["ubm"], case["X"], case["delta"]
    ubm = sut.make_gmm(p)
    stats = ubm.acc_stats(X)
    score = float(np.asarray(linear_scoring(np.array(p["means"] + delta), ubm, stats))[0, 0])

    def f(eps):
        q = dict(p, means=p["means"] + eps * delta)
        return float(np.asarray(sut.make_gmm(q).log_likelihood(X)).sum())

    h = 1e-3

    def D(hh):
        return (f(hh) - f(-hh)) / (2 * hh)

    rich = (4 * D(h) - D(2 * h)) / 3
    post = ref.gmm_posteriors(X, p["weights"], p["means"], p["variances"])
    terms = 0.0
    for c in range(p["C"]):
        terms += float((post[c][:, None] * np.abs(delta[c] / p["variances"][c]) * np.abs(X - p["means"][c])).sum())
    ctx.note(p["C"] >= 2 and p["C"] != p["F"], "C!=F" if p["C"] != p["F"] else "C==F")
    ctx.stat_max("|fd - score| / sum|terms|", abs(rich - score) / (terms + 1e-300))
    ctx.close(score, rich, "linear score vs finite-difference derivative", rtol=0, atol=1e-6 * terms + 1e-11 * abs(f(0)) + SUBNORMAL)
