"""C07 — ISV and JFA enrolment climbs to the joint posterior mode of the latent factors."""
import numpy as np

from vf import gen, sut
from vf.runner import Registry

REG = Registry(
    "C07",
    rule=(
        "Hypothesis draws a UBM, U and V with entries of relative scale 1e-2..1e1, D of relative scale "
        "1e-10..1e1 (the pinned test only has 1e-10, which hides every coupling through z), 1..5 enrolment "
        "sessions with fractional counts (some components with zero count), and an iteration count. Oracles: "
        "(a) enroll with K iterations == K rounds of reference block updates (y -> x_h -> z, ISV: x_h -> z) "
        "written from the model; (b) with the state reconstructed from the returned factors the joint "
        "log-posterior J_K never decreases in K and never exceeds J* at the exact mode obtained by one dense "
        "solve; (c) once the iterates stop moving (K doubled up to 2048) they equal that mode. Non-trivial: D "
        "of order 1 relative to sqrt(variance) and >=2 sessions with different counts."
    ),
    assumptions=[
        "enrolment that has not reached a fixed point within 2048 iterations is counted inconclusive-slow, not a violation",
        "tolerance for (a): 1e-6 relative to the largest factor (explicit inverses vs solves, condition numbers up to 1e6)",
    ],
)


def alive(case):
    H = len(case["sessions"])
    counts = {round(float(s["n"].sum()), 9) for s in case["sessions"]}
    return case["d_exp"] >= -1 and H >= 2 and len(counts) >= 2


def impl_enroll(m, case, K):
    m.enroll_iterations = int(K)
    out = m.enroll(sut.sessions_of(case))
    if case["jfa"]:
        y, z = out
        return np.asarray(y, float).ravel(), np.asarray(z, float).ravel()
    return None, np.asarray(out, float).ravel()


def g_enroll(draw):
    c = gen.fa_case(draw)
    c["K"] = gen.integer(draw, 1, 12)
    if gen.integer(draw, 0, 7) == 0:
        c["stats_layout"] = "lazy"  # statistics whose arrays are still Dask arrays (acc_stats of a Dask array)
        c["K"] = min(c["K"], 3)     # (every iteration computes them again: keep these cases short)
    return c


@REG.obligation("enroll_equals_block_ascent", g_enroll, quick=500, thorough=10000)
def c_enroll(ctx, case):
    """enroll(K iterations) == K rounds of y -> x_h -> z conditional-mode updates under m + Vy + Ux_h + Dz."""
    m = sut.make_fa(case)
    fa = sut.fa_ref(case)
    sess = sut.nf(case["sessions"])
    K = case["K"]
    y, z = impl_enroll(m, case, K)
    ry, rxs, rz = fa.enroll(sess, K)[-1]
    ctx.note(alive(case) and K >= 2, "jfa" if case["jfa"] else "isv", "K>=2" if K >= 2 else "K=1",
             "D-alive" if case["d_exp"] >= -1 else "D-negligible", "sessions=%d" % len(sess))
    if case["jfa"]:
        ctx.check(y.shape == (fa.rV,), "y shape %s" % (y.shape,), "shape")
        ctx.close(y, ry, "speaker factors y", rtol=1e-6, atol=1e-7 * (np.abs(ry).max() + 1e-300))
    ctx.check(z.size == fa.CF, "z size %d, expected %d" % (z.size, fa.CF), "shape")
    ctx.close(z, rz, "residual offsets z", rtol=1e-6, atol=1e-7 * (np.abs(rz).max() + 1e-300) + 1e-300)


def g_mono(draw):
    c = gen.fa_case(draw, d_alive=gen.choice(draw, [True, True, False]))
    c["K"] = gen.integer(draw, 2, 8)
    return c


@REG.obligation("joint_posterior_monotone", g_mono, quick=250, thorough=5000)
def c_mono(ctx, case):
    """J(y_K, x_K, z_K) is non-decreasing in K and bounded by its value at the exact joint mode."""
    m = sut.make_fa(case)
    fa = sut.fa_ref(case)
    sess = sut.nf(case["sessions"])
    my, mxs, mz = fa.joint_mode(sess)
    Jstar = fa.joint(sess, my, mxs, mz)
    zprev = np.zeros(fa.CF)
    Js = []
    for K in range(1, case["K"] + 1):
        y, z = impl_enroll(m, case, K)
        xs = fa.mode_x(sess, y, zprev)  # x_K was computed from y_K and z_{K-1}
        Js.append(fa.joint(sess, y, xs, z))
        zprev = z
    scale = 1 + abs(Jstar)
    inc = np.diff(Js)
    ctx.note(alive(case) and (inc > 1e-9 * scale).any(), "jfa" if case["jfa"] else "isv",
             "strict-increase" if (inc > 1e-9 * scale).any() else "flat")
    for k, d in enumerate(inc):
        ctx.stat_max("largest decrease / (1+|J*|)", max(0.0, -d) / scale)
        if d < -1e-8 * scale:
            ctx.fail("joint posterior fell from %.12g to %.12g when iteration %d was allowed" % (Js[k], Js[k + 1], k + 2),
                     "posterior-decrease")
    if max(Js) > Jstar + 1e-8 * scale:
        ctx.fail("joint posterior %.12g exceeds its value at the exact mode %.12g" % (max(Js), Jstar), "above-mode")


def g_limit(draw):
    c = gen.fa_case(draw, max_sessions=3, d_alive=True)
    return c


@REG.obligation("limit_is_joint_mode", g_limit, quick=48, thorough=640, shard_size=8)
def c_limit(ctx, case):
    """As iterations grow, the returned factors converge to the unique joint posterior mode."""
    m = sut.make_fa(case)
    fa = sut.fa_ref(case)
    sess = sut.nf(case["sessions"])
    my, mxs, mz = fa.joint_mode(sess)
    prev = None
    K = 32
    fixed = False
    while K <= 2048:
        y, z = impl_enroll(m, case, K)
        cur = np.concatenate([y if y is not None else np.zeros(0), z])
        if prev is not None:
            mv = np.abs(cur - prev).max() / (np.abs(cur).max() + 1e-300)
            if mv < 1e-11:
                fixed = True
                break
        prev = cur
        K *= 4
    if not fixed:
        ctx.note(False, "inconclusive-slow")
        ctx.event("not converged within 2048 iterations")
        return
    ctx.note(alive(case), "jfa" if case["jfa"] else "isv", "fixed-point@K<=%d" % K)
    zs = np.abs(mz).max() + 1e-300
    ctx.close(z, mz, "z at the fixed point vs exact mode", rtol=1e-5, atol=1e-6 * zs)
    if case["jfa"]:
        ctx.close(y, my, "y at the fixed point vs exact mode", rtol=1e-5, atol=1e-6 * (np.abs(my).max() + 1e-300))


def g_follow(draw):
    from vf.props import c11

    c = c11.g_lifecycle(draw)
    c["step"] = gen.choice(draw, ["fit", "fit", "fit_bag", "ubm", "inplace_U", "inplace_V" if c["jfa"] else "inplace_U",
                                  "setter_U", "inplace_D", "ubm_variances_setter"])
    c["K"] = gen.integer(draw, 1, 4)
    return c


@REG.obligation("enrolment_follows_the_machine", g_follow, quick=200, thorough=4000, shard_size=34)
def c_follow(ctx, case):
    """A machine that has already enrolled a client and is then re-trained / has U, V or D re-assigned or edited in
    place / is re-pointed to another UBM enrols like a FRESH machine holding the same U, V, D and UBM, i.e. it performs
    the block updates of the model it holds NOW (nothing derived from the old parameters survives)."""
    import dask.bag as db

    m = sut.make_fa(case, em_iterations=case["em"])
    m.enroll_iterations = int(case["K"])
    client = [sut.make_stats(s) for s in case["probe"]]
    m.enroll(client)
    stats = sut.sessions_of(case)
    y = np.asarray(case["y"])
    ubm_params = case["ubm"]
    step = case["step"]
    if step == "fit":
        m.fit(stats, y)
    elif step == "fit_bag":
        m.fit(db.from_sequence(stats, npartitions=2), y)
    elif step == "ubm":
        ubm_params = dict(case["ubm"], means=np.array(case["ubm"]["means"]) * 0.8 - 0.3,
                          variances=np.array(case["ubm"]["variances"]) * 1.9)
        m.ubm = sut.make_gmm(ubm_params)
    elif step == "ubm_variances_setter":
        ubm_params = dict(case["ubm"], variances=np.array(case["ubm"]["variances"]) * 2.5)
        m.ubm.variances = np.array(ubm_params["variances"])
    elif step == "inplace_U":
        m.U[...] = np.asarray(m.U) * 0.5 + 0.01
    elif step == "inplace_V":
        m.V[...] = np.asarray(m.V) * 1.5 - 0.02
    elif step == "inplace_D":
        m.D[...] = np.asarray(m.D) * 0.7
    else:
        m.U = np.asarray(m.U) * 0.5 + 0.01
    ctx.note(True, "jfa" if case["jfa"] else "isv", "step:" + step, "K=%d" % case["K"])
    fresh_case = dict(case, ubm=ubm_params, U=np.array(m.U), D=np.array(m.D), V=(np.array(m.V) if case["jfa"] else None),
                      swap_ubm=False, sessions=case["probe"])
    fresh = sut.make_fa(fresh_case)
    fresh.enroll_iterations = int(case["K"])
    got, want = m.enroll(client), fresh.enroll([sut.make_stats(s) for s in case["probe"]])
    fa = sut.fa_ref(fresh_case)
    ry, rxs, rz = fa.enroll(sut.nf(case["probe"]), int(case["K"]))[-1]
    if case["jfa"]:
        gy, gz = np.asarray(got[0], float).ravel(), np.asarray(got[1], float).ravel()
        wy, wz = np.asarray(want[0], float).ravel(), np.asarray(want[1], float).ravel()
        ctx.close(gy, wy, "y after %s vs fresh machine with the same parameters" % step, rtol=1e-9,
                  atol=1e-12 * (np.abs(wy).max() + 1e-300))
        ctx.close(gy, ry, "y after %s vs reference block ascent" % step, rtol=1e-6, atol=1e-7 * (np.abs(ry).max() + 1e-300))
    else:
        gz, wz = np.asarray(got, float).ravel(), np.asarray(want, float).ravel()
    ctx.close(gz, wz, "z after %s vs fresh machine with the same parameters" % step, rtol=1e-9,
              atol=1e-12 * (np.abs(wz).max() + 1e-300) + 1e-300)
    ctx.close(gz, rz, "z after %s vs reference block ascent" % step, rtol=1e-6, atol=1e-7 * (np.abs(rz).max() + 1e-300) + 1e-300)
