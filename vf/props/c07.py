"""C07 — ISV and JFA enrolment climbs to the joint posterior mode of the latent factors."""
import numpy as np

from vf import gen, sut
from vf.runner import Registry

REG = Registry(
    "C07",
    rule=(
        "Hypothesis draws a UBM, U and V with entries of relative scale 1e-2..1e1, D of relative scale "
        "1e-10..1e1 (the pinned test only has 1e-10, which hides every coupling through z), 1..5 enrolment "
        "sessions with fractional counts (some components with zero count), and an iteration count. Oracles: "
        "(a) enroll with K iterations == K rounds of reference block updates (y -> x_h -> z, ISV: x_h -> z) "
        "written from the model; (b) with the state reconstructed from the returned factors the joint "
        "log-posterior J_K never decreases in K and never exceeds J* at the exact mode obtained by one dense "
        "solve; (c) once the iterates stop moving (K doubled up to 2048) they equal that mode. Non-trivial: D "
        "of order 1 relative to sqrt(variance) and >=2 sessions with different counts."
    ),
    assumptions=[
        "enrolment that has not reached a fixed point within 2048 iterations is counted inconclusive-slow, not a violation",
        "tolerance for (a): 1e-6 relative to the largest factor (explicit inverses vs solves, condition numbers up to 1e6)",
    ],
)


def alive(case):
    H = len(case["sessions"])
    counts = {round(float(s["n"].sum()), 9) for s in case["sessions"]}
    return case["d_exp"] >= -1 and H >= 2 and len(counts) >= 2


def impl_enroll(m, case, K):
    m.enroll_iterations = int(K)
    out = m.enroll(sut.sessions_of(case))
    if case["jfa"]:
        y, z = out
        return np.asarray(y, float).ravel(), np.asarray(z, float).ravel()
    return None, np.asarray(out, float).ravel()


def g_enroll(draw):
    c = gen.fa_case(draw)
    c["K"] = gen.integer(draw, 1, 12)
    return c


@REG.obligation("enroll_equals_block_ascent", g_enroll, quick=500, thorough=10000)
def c_enroll(ctx, case):
    """enroll(K iterations) == K rounds of y -> x_h -> z conditional-mode updates under m + Vy + Ux_h + Dz."""
    m = sut.make_fa(case)
    fa = sut.fa_ref(case)
    sess = sut.nf(case["sessions"])
    K = case["K"]
    y, z = impl_enroll(m, case, K)
    ry, rxs, rz = fa.enroll(sess, K)[-1]
    ctx.note(alive(case) and K >= 2, "jfa" if case["jfa"] else "isv", "K>=2" if K >= 2 else "K=1",
             "D-alive" if case["d_exp"] >= -1 else "D-negligible", "sessions=%d" % len(sess))
    if case["jfa"]:
        ctx.check(y.shape == (fa.rV,), "y shape %s" % (y.shape,), "shape")
        ctx.close(y, ry, "speaker factors y", rtol=1e-6, atol=1e-7 * (np.abs(ry).max() + 1e-300))
    ctx.check(z.size == fa.CF, "z size %d, expected %d" % (z.size, fa.CF), "shape")
    ctx.close(z, rz, "residual offsets z", rtol=1e-6, atol=1e-7 * (np.abs(rz).max() + 1e-300) + 1e-300)


def g_mono(draw):
    c = gen.fa_case(draw, d_alive=gen.choice(draw, [True, True, False]))
    c["K"] = gen.integer(draw, 2, 8)
    return c


@REG.obligation("joint_posterior_monotone", g_mono, quick=250, thorough=5000)
def c_mono(ctx, case):
    """J(y_K, x_K, z_K) is non-decreasing in K and bounded by its value at the exact joint mode."""
    m = sut.make_fa(case)
    fa = sut.fa_ref(case)
    sess = sut.nf(case["sessions"])
    my, mxs, mz = fa.joint_mode(sess)
    Jstar = fa.joint(sess, my, mxs, mz)
    zprev = np.zeros(fa.CF)
    Js = []
    for K in range(1, case["K"] + 1):
        y, z = impl_enroll(m, case, K)
        xs = fa.mode_x(sess, y, zprev)  # x_K was computed from y_K and z_{K-1}
        Js.append(fa.joint(sess, y, xs, z))
        zprev = z
    scale = 1 + abs(Jstar)
    inc = np.diff(Js)
    ctx.note(alive(case) and (inc > 1e-9 * scale).any(), "jfa" if case["jfa"] else "isv",
             "strict-increase" if (inc > 1e-9 * scale).any() else "flat")
    for k, d in enumerate(inc):
        ctx.stat_max("largest decrease / (1+|J*|)", max(0.0, -d) / scale)
        if d < -1e-8 * scale:
            ctx.fail("joint posterior fell from %.12g to %.12g when iteration %d was allowed" % (Js[k], Js[k + 1], k + 2),
                     "posterior-decrease")
    if max(Js) > Jstar + 1e-8 * scale:
        ctx.fail("joint posterior %.12g exceeds its value at the exact mode %.12g" % (max(Js), Jstar), "above-mode")


def g_limit(draw):
    c = gen.fa_case(draw, max_sessions=3, d_alive=True)
    return c


@REG.obligation("limit_is_joint_mode", g_limit, quick=48, thorough=640, shard_size=8)
def c_limit(ctx, case):
    """As iterations grow, the returned factors converge to the unique joint posterior mode."""
    m = sut.make_fa(case)
    fa = sut.fa_ref(case)
    sess = sut.nf(case["sessions"])
    my, mxs, mz = fa.joint_mode(sess)
    prev = None
    K = 32
    fixed = False
    while K <= 2048:
        y, z = impl_enroll(m, case, K)
        cur = np.concatenate([y if y is not None else np.zeros(0), z])
        if prev is not None:
            mv = np.abs(cur - prev).max() / (np.abs(cur).max() + 1e-300)
            if mv < 1e-11:
                fixed = True
                break
        prev = cur
        K *= 4
    if not fixed:
        ctx.note(False, "inconclusive-slow")
        ctx.event("not converged within 2048 iterations")
        return
    ctx.note(alive(case), "jfa" if case["jfa"] else "isv", "fixed-point@K<=%d" % K)
    zs = np.abs(mz).max() + 1e-300
    ctx.close(z, mz, "z at the fixed point vs exact mode", rtol=1e-5, atol=1e-6 * zs)
    if case["jfa"]:
        ctx.close(y, my, "y at the fixed point vs exact mode", rtol=1e-5, atol=1e-6 * (np.abs(my).max() + 1e-300))
