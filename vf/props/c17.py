"""C17 — a GMM's likelihood reflects its current visible parameters, whatever its history."""
import copy
import os
import pickle
import tempfile

import numpy as np

from vf import gen, ref, sut
from vf.runner import Registry

EPS = np.finfo(float).eps

REG = Registry(
    "C17",
    rule=(
        "Model-based history generation: Hypothesis draws a starting machine (ML, or MAP over a held prior) and a "
        "sequence of 1..12 public operations (an op list, shrunk as one value): assign weights / means / variances "
        "(possibly below the floors), assign floors (scalar, per-feature, per-component-and-feature; raising and "
        "lowering, including 0), one EM step with generated update switches, copy.deepcopy, pickle round trip, "
        "save + from_hdf5, save + load into another machine of a different shape. The model is the triple of "
        "VISIBLE (weights, means, variances) plus the current floors. Invariant after every operation: a freshly "
        "built machine given the same floors, weights, means and variances returns the same log_likelihood, "
        "log_weighted_likelihood and acc_stats on a fixed probe batch (1e-12), both agree with the SciPy "
        "reference of the visible parameters, and variances >= variance_thresholds elementwise. Non-trivial: >= 4 "
        "operations containing a floor change after variances were set and a weights change after a likelihood "
        "was computed (a likelihood is computed after every operation)."
    ),
    assumptions=["HDF5 operations use max_fitting_steps/convergence_threshold that can be written (None cannot)"],
)

OPS = ["set_weights", "set_means", "set_variances", "set_floors", "em_step", "deepcopy", "pickle", "hdf5_new",
       "hdf5_load_other", "set_floors", "set_variances", "set_weights", "lower_floors_and_shrink", "lend_to_other_machine",
       "other_feature_dimension", "scale_floors_in_place"]


def g_history(draw):
    C, F = gen.dims(draw, maxC=4, maxF=3)
    r = gen.rng(draw)
    scales = gen.feature_scales(draw, F, lo=-2, hi=2)
    p = gen.gmm_params(draw, C, F, scales=scales, kmax=5.0, allow_zero_floor=True)
    probe, _ = gen.data_from(draw, p, gen.integer(draw, 2, 8), kind=gen.choice(draw, ["bulk", "mixed"]), r=r)
    train, _ = gen.data_from(draw, p, gen.integer(draw, 3, 12), kind="bulk", r=r)
    n_ops = gen.integer(draw, 1, 12)
    ops = []
    cur_mu = p["means"]
    is_map = gen.choice(draw, [False, False, True])
    for _ in range(n_ops):
        name = gen.choice(draw, OPS)
        if name == "other_feature_dimension" and is_map:
            name = "set_means"  # a MAP machine is tied to its prior's dimension
        op = {"op": name}
        if name == "set_weights":
            op["w"] = gen.weights(draw, C, r)
        elif name == "set_means":
            op["mu"] = cur_mu + scales[None, :] * r.normal(0, 1, (C, F))
        elif name == "set_variances":
            lo = gen.choice(draw, [0, -6, -12])  # possibly far below the floors
            op["var"] = scales[None, :] ** 2 * np.exp(r.uniform(-2, 2, (C, F))) * 10.0 ** r.integers(lo, 1, (C, F))
        elif name == "set_floors":
            kind = gen.choice(draw, ["scalar", "vector", "matrix", "zero", "eps", "column", "row"])
            e = gen.integer(draw, -8, 1)
            if kind == "scalar":
                op["floor"] = float(10.0**e * scales.min() ** 2)
            elif kind == "vector":
                op["floor"] = 10.0**e * scales**2 * np.exp(r.uniform(-1, 1, F))
            elif kind == "matrix":
                op["floor"] = 10.0**e * (scales**2)[None, :] * np.exp(r.uniform(-1, 1, (C, F)))
            elif kind == "column":  # one floor per component, as a (C, 1) column
                op["floor"] = 10.0**e * scales.min() ** 2 * np.exp(r.uniform(-1, 1, (C, 1)))
            elif kind == "row":  # one floor per feature, as a (1, F) row
                op["floor"] = 10.0**e * (scales**2)[None, :] * np.exp(r.uniform(-1, 1, (1, F)))
            elif kind == "zero":
                op["floor"] = 0.0
            else:
                op["floor"] = float(EPS)
            op["kind"] = kind
        elif name == "lower_floors_and_shrink":
            # floors far below machine epsilon, then variances between the new floors and epsilon
            op["floor"] = gen.choice(draw, [0.0, 1e-30, 1e-22])
            op["var"] = 10.0 ** r.uniform(-20, -14, (C, F))
        elif name == "em_step":
            op["upd"] = [bool(b) for b in gen.choice(draw, [(1, 1, 1), (0, 1, 0), (1, 0, 0), (0, 0, 1), (1, 1, 0), (0, 1, 1)])]
            # the training rows may come as a Dask array, on an executor that shares memory with the caller or on one
            # that hands every task pickled copies (as worker processes do)
            op["dask"] = gen.choice(draw, [None, None, "shared", "isolated"])
            op["blocks"] = gen.integer(draw, 1, 3)
        elif name == "lend_to_other_machine":
            op["factor"] = gen.choice(draw, [0.3, 2.0, 50.0])
            op["train"] = gen.boolean(draw)
        elif name == "scale_floors_in_place":
            # `machine.variance_thresholds *= f`: get, in-place operator, set - for array floors the setter receives the
            # very array the machine already holds, with other values
            op["factor"] = gen.choice(draw, [50.0, 1e3, 1e6, 0.1])
        elif name == "other_feature_dimension":
            # the same object is given Gaussians over another number of features (floors, means, variances through
            # the public setters); from then on the history continues with data of that dimension
            F2 = gen.choice(draw, [f for f in (1, 2, 3, 4, 5) if f != F])
            sc2 = gen.feature_scales(draw, F2, lo=-2, hi=2)
            op["mu"] = sc2[None, :] * r.normal(0, 3, (C, F2))
            op["var"] = sc2[None, :] ** 2 * np.exp(r.uniform(-2, 2, (C, F2)))
            # scalar floors: array floors of the old shape cannot be combined with parameters of the new one
            op["floor"] = gen.choice(draw, [float(EPS), float(1e-3 * sc2.min() ** 2), float(1e-1 * sc2.min() ** 2)])
            idx = r.integers(0, C, 8)
            op["probe"] = op["mu"][idx[:4]] + np.sqrt(op["var"][idx[:4]]) * r.normal(0, 1, (4, F2))
            op["train"] = op["mu"][idx] + np.sqrt(op["var"][idx]) * r.normal(0, 1, (8, F2))
            F, scales, cur_mu = F2, sc2, op["mu"]
        # evaluating a likelihood refreshes whatever the machine derives lazily, so it is itself an operation of the
        # history: after some operations only the floors invariant (which reads nothing derived) is looked at
        op["observe"] = gen.choice(draw, [True, True, False])
        ops.append(op)
    # a machine that was only given means (and floors, possibly above the unit variances fit() falls back to) before
    # its first training step
    bare = (not is_map) and gen.choice(draw, [False, False, False, True])
    if bare:
        ops.insert(0, {"op": "em_step", "upd": [True, bool(gen.boolean(draw)), False], "observe": True})
    return {"p": p, "probe": probe, "train": train, "ops": ops, "map": is_map, "bare": bare,
            "bare_floor": gen.choice(draw, [2.5, 40.0, 0.5, float(EPS)]),
            "C2": gen.integer(draw, 1, 5)}


def visible(g):
    return (np.array(g.weights, float), np.array(g.means, float), np.array(g.variances, float))


def check_invariant(ctx, g, probe, after, observe=True):
    from bob.learn.em import GMMMachine

    w, mu, var = visible(g)
    thr = g.variance_thresholds
    thr_b = np.broadcast_to(np.asarray(thr, float), var.shape)
    ctx.check((var >= thr_b).all(), "after %s: a variance is below its current floor" % after, "variance-below-floor")
    if not observe:
        return
    fresh = GMMMachine(len(w))
    fresh.variance_thresholds = copy.deepcopy(thr)
    fresh.means = mu.copy()
    fresh.variances = var.copy()
    fresh.weights = w.copy()
    ctx.close(fresh.variances, var, "after %s: fresh machine keeps the visible variances" % after, rtol=0, atol=0)
    ll, fl = np.asarray(g.log_likelihood(probe)), np.asarray(fresh.log_likelihood(probe))
    ctx.close(ll, fl, "after %s: log_likelihood vs fresh machine with the same visible parameters" % after,
              rtol=1e-12, atol=1e-12)
    ctx.close(np.asarray(g.log_weighted_likelihood(probe)), np.asarray(fresh.log_weighted_likelihood(probe)),
              "after %s: log_weighted_likelihood vs fresh machine" % after, rtol=1e-12, atol=1e-12)
    if (var > 0).all():
        want = ref.gmm_logpdf(probe, w, mu, var)
        ctx.close(ll, want, "after %s: log_likelihood vs reference density of the visible parameters" % after,
                  rtol=1e-10, atol=1e-9)
    a, b = g.acc_stats(probe), fresh.acc_stats(probe)
    for f in ("n", "sum_px", "sum_pxx"):
        ctx.close(getattr(a, f), getattr(b, f), "after %s: acc_stats.%s vs fresh machine" % (after, f), rtol=1e-12,
                  atol=1e-300)
    ctx.close(a.log_likelihood, b.log_likelihood, "after %s: acc_stats.log_likelihood vs fresh machine" % after,
              rtol=1e-12, atol=1e-12)


@REG.obligation("history_independence", g_history, quick=1000, thorough=16000)
def c_history(ctx, case):
    """After every public operation the machine behaves like a fresh one with the same visible parameters."""
    from bob.learn.em import GMMMachine

    p, probe, train = case["p"], case["probe"], case["train"]
    C = p["C"]
    prior = None
    if case["map"]:
        prior = sut.make_gmm(p)
        g = GMMMachine(C, trainer="map", ubm=prior, max_fitting_steps=1, convergence_threshold=1e-5)
    elif case.get("bare"):
        g = GMMMachine(C, max_fitting_steps=1, convergence_threshold=1e-5)
        g.variance_thresholds = float(case["bare_floor"])
        g.means = np.array(p["means"], float)
    else:
        g = sut.make_gmm(p, max_fitting_steps=1, convergence_threshold=1e-5)
    if not case.get("bare"):
        check_invariant(ctx, g, probe, "construction")
    names = [o["op"] for o in case["ops"]]
    vars_unset = bool(case.get("bare"))
    vars_set = True
    floor_after_var = False
    weights_after_ll = False
    for i, op in enumerate(case["ops"]):
        name = op["op"]
        if name == "set_weights":
            g.weights = np.array(op["w"], float)
            weights_after_ll = True
        elif name == "set_means":
            g.means = np.array(op["mu"], float)
        elif name == "set_variances":
            g.variances = np.array(op["var"], float)
        elif name == "set_floors":
            fl = op["floor"]
            g.variance_thresholds = np.array(fl, float) if np.ndim(fl) else float(fl)
            floor_after_var = floor_after_var or vars_set
        elif name == "lower_floors_and_shrink":
            g.variance_thresholds = float(op["floor"])
            g.variances = np.array(op["var"], float)
            floor_after_var = True
        elif name == "em_step":
            if (not vars_unset and not (np.asarray(g.variances) > 0).all()) or not (np.asarray(g.variance_thresholds) > 0).all():
                # training needs strictly positive floors (a collapsing component has ML variance 0) and
                # strictly positive variances: not a valid training state, skipped and counted
                ctx.event("em_step skipped (zero floor or zero variance)")
                continue
            g.update_means, g.update_variances, g.update_weights = op["upd"]
            g.max_fitting_steps = 1
            if op.get("dask"):
                from vf import sched

                nb = max(1, min(int(op.get("blocks", 2)), len(train)))
                cuts = [len(train) * j // nb for j in range(nb + 1)]
                chunks = [b - a for a, b in zip(cuts[:-1], cuts[1:]) if b > a]
                with sched.owned("random", i, op["dask"] == "isolated"):
                    g.fit(sut.dask_rows(train, chunks))
            else:
                g.fit(train)
            vars_unset = False
        elif name == "lend_to_other_machine":
            # ANOTHER machine, with floors above some or all of this machine's variances, is given the arrays this
            # machine shows (model.variances = ubm.variances, as the repository's own tests do) and may be trained: the
            # lender must not change
            cur = np.asarray(g.variances, float)
            if not (cur > 0).all():
                ctx.event("lend skipped (zero variance)")
                continue
            b = GMMMachine(len(np.asarray(g.weights)), max_fitting_steps=1, convergence_threshold=None, update_variances=True,
                           update_weights=True)
            b.variance_thresholds = float(op["factor"]) * float(np.median(cur))
            b.means = g.means
            b.variances = g.variances
            b.weights = g.weights
            if op.get("train"):
                b.fit(train)
            b.log_likelihood(probe)
        elif name == "scale_floors_in_place":
            g.variance_thresholds *= float(op["factor"])
            floor_after_var = floor_after_var or vars_set
        elif name == "other_feature_dimension":
            g.variance_thresholds = float(op["floor"])
            g.means = np.array(op["mu"], float)
            g.variances = np.array(op["var"], float)
            probe, train = np.array(op["probe"], float), np.array(op["train"], float)
        elif name == "deepcopy":
            g = copy.deepcopy(g)
        elif name == "pickle":
            g = pickle.loads(pickle.dumps(g))
        elif name in ("hdf5_new", "hdf5_load_other"):
            fd, path = tempfile.mkstemp(suffix=".h5", prefix="vf_c17_")
            os.close(fd)
            try:
                before = visible(g)
                thr_before = np.array(g.variance_thresholds, float)
                g.save(path)
                if name == "hdf5_new":
                    g2 = GMMMachine.from_hdf5(path, ubm=prior)
                else:
                    if case["map"]:
                        g2 = GMMMachine(C, trainer="map", ubm=prior)
                    else:
                        g2 = GMMMachine(int(case["C2"]))
                        g2.means = np.zeros((int(case["C2"]), 1))  # a different shape, with stale caches
                        g2.variances = np.ones((int(case["C2"]), 1))
                        g2.log_likelihood(np.zeros((1, 1)))
                    g2.load(path)
                g = g2
                # loading must give back the visible state that was saved (floors may clamp nothing new)
                for a, b, what in zip(before, visible(g), ("weights", "means", "variances")):
                    ctx.close(b, a, "%s after %s" % (what, name), rtol=0, atol=0)
                ctx.close(np.broadcast_to(np.asarray(g.variance_thresholds, float), before[2].shape),
                          np.broadcast_to(thr_before, before[2].shape), "floors after %s" % name, rtol=0, atol=0)
            finally:
                try:
                    os.remove(path)
                except OSError:
                    pass
        last = i == len(case["ops"]) - 1
        check_invariant(ctx, g, probe, "op %d (%s)" % (i + 1, name), observe=bool(op.get("observe", True)) or last)
    ctx.note(len(names) >= 4 and floor_after_var and weights_after_ll, "map" if case["map"] else "ml",
             "ops=%d" % len(names), *sorted(set("op:" + n for n in names)))
