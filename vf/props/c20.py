"""C20 — k-means assigns to the nearest centroid; cluster-derived GMM initialisation is exact."""
import numpy as np

from vf import gen, ref, sut
from vf.runner import Registry

EPS = np.finfo(float).eps

REG = Registry(
    "C20",
    rule=(
        "Hypothesis draws centroids and rows in 1..6 dimensions with offsets up to 1e8 and spreads down to "
        "1e-3 (where the expansion |x|^2+|c|^2-2x.c would cancel), as a single sample, a batch and a "
        "row-chunked Dask array. Oracles: transform == explicit sum (x-c)^2 (1e-12 relative), >= 0, shape "
        "(k, n); predict returns an index whose distance is within 1e-12 relative of the minimum (ties need "
        "no exclusion); NumPy == Dask == single; cluster weights == member fractions and variances == "
        "numpy.var of the members within the forward-error bound 16*n*eps*max(x^2) of the E[x^2]-mean^2 "
        "formula, for every chunking; a GMM initialised from k-means has exactly these centroids, "
        "max(floor, variances) and weights. Non-trivial: >=2 clusters with members and (>=2 unequal chunks "
        "or offset >= 1e4 spreads)."
    ),
    assumptions=[
        "cluster statistics are compared only for clusters with members (empty clusters belong to C13)",
        "assignment ties (margin < 1e-9 relative) are discarded for the statistics checks",
    ],
)


def g_points(draw):
    r = gen.rng(draw)
    F = gen.integer(draw, 1, 6)
    k = gen.choice(draw, [gen.integer(draw, 1, 5), gen.integer(draw, 1, 5), gen.integer(draw, 6, 14)])  # also a dozen centroids
    n = gen.integer(draw, 1, 30 if gen.big() else 14)
    spread = 10.0 ** gen.integer(draw, -3, 3)
    off_mag = gen.choice(draw, [0.0, 1.0, 1e4, 1e8, -1e6])
    offset = off_mag * spread * r.choice([-1.0, 1.0], F) if off_mag else np.zeros(F)
    cent = offset + spread * r.normal(0, 2, (k, F))
    X = offset + spread * r.normal(0, 2, (n, F))
    if gen.boolean(draw) and k >= 1:
        # some rows close to a centroid
        m = min(n, 3)
        X[:m] = cent[r.integers(0, k, m)] + spread * r.normal(0, 1e-3, (m, F))
    how = gen.presentation(draw)
    if how == "int":
        if spread < 1:
            how = "plain"
        else:
            X = gen.integral(X)
    return {"X": X, "cent": cent, "chunks": gen.composition(draw, n), "off_mag": float(abs(off_mag)),
            "spread": spread, "how": how}


def machine(cent):
    from bob.learn.em import KMeansMachine

    m = KMeansMachine(cent.shape[0])
    m.centroids_ = np.array(cent, dtype=float)
    return m


@REG.obligation("distances_and_labels", g_points, quick=600, thorough=15000)
def c_points(ctx, case):
    """transform == squared Euclidean distances; predict == index of a nearest centroid; NumPy == Dask == single."""
    X, cent, chunks = case["X"], case["cent"], case["chunks"]
    k, n = cent.shape[0], X.shape[0]
    m = machine(cent)
    want = ref.sq_dists(X, cent)
    Xarg = sut.present(X, case.get("how", "plain"))
    ctx.event("input:" + case.get("how", "plain"))
    got = np.asarray(m.transform(Xarg))
    ctx.note(k >= 2 and (case["off_mag"] >= 1e4 or (len(chunks) >= 2 and len(set(chunks)) >= 2)),
             "offset:%g" % case["off_mag"], "chunks>=2" if len(chunks) >= 2 else "chunks=1")
    ctx.check(got.shape == (k, n), "transform shape %s, expected %s" % (got.shape, (k, n)), "shape")
    ctx.close(got, want, "squared distances", rtol=1e-12, atol=0)
    ctx.check((got >= 0).all(), "negative squared distance", "negative")
    lab = np.asarray(m.predict(Xarg))
    ctx.check(lab.shape == (n,), "predict shape %s" % (lab.shape,), "shape")
    ctx.check(((lab >= 0) & (lab < k)).all(), "label out of range", "label-range")
    dmin = want.min(axis=0)
    chosen = want[lab, np.arange(n)]
    ctx.check((chosen <= dmin * (1 + 1e-12)).all(),
              "predict chose a centroid at distance %r where the minimum is %r" % (chosen.tolist()[:4], dmin.tolist()[:4]),
              "not-nearest")
    # a result that the caller keeps is not changed by a later call on other rows of the same shape
    X2 = X[::-1] * 1.25 + case["spread"]
    kept_d, kept_l = m.transform(X), m.predict(X)
    snap_d, snap_l = np.array(kept_d, copy=True), np.array(kept_l, copy=True)
    m.transform(X2), m.predict(X2)
    ctx.check(np.array_equal(np.asarray(kept_d), snap_d) and np.array_equal(np.asarray(kept_l), snap_l),
              "distances / labels returned by an earlier call changed when the machine was called again", "result-overwritten")
    # Dask
    dX = sut.dask_rows(X, chunks)
    lazy_d, lazy_l = m.transform(dX), m.predict(dX)
    # the lazy results are used as they are: their declared shapes are right and a single row's column / label can be
    # taken without computing the rest
    ctx.check(tuple(lazy_d.shape) == (k, n) and tuple(lazy_l.shape) == (n,), "lazy transform / predict declare shapes %s / %s, expected %s / %s"
              % (lazy_d.shape, lazy_l.shape, (k, n), (n,)), "lazy-shape")
    for t in sorted({0, n // 2, n - 1}):
        ctx.close(np.asarray(lazy_d[:, t].compute()), want[:, t], "column %d of the lazy distances" % t, rtol=1e-12, atol=0)
        lt = int(lazy_l[t].compute())
        ctx.check(want[lt, t] <= want[:, t].min() * (1 + 1e-12), "label %d taken from the lazy predict result is not a nearest centroid" % t,
                  "not-nearest")
    dgot = np.asarray(m.transform(dX).compute())
    ctx.check(dgot.shape == (k, n), "dask transform shape %s" % (dgot.shape,), "shape")
    ctx.close(dgot, want, "dask squared distances", rtol=1e-12, atol=0)
    dlab = np.asarray(m.predict(dX).compute())
    dchosen = want[dlab, np.arange(n)]
    ctx.check((dchosen <= dmin * (1 + 1e-12)).all(), "dask predict did not choose a nearest centroid", "not-nearest")
    # single sample
    for t in range(min(n, 4)):
        one = np.asarray(m.transform(X[t]))
        ctx.check(one.shape == (k, 1), "single-sample transform shape %s" % (one.shape,), "shape")
        ctx.close(one[:, 0], want[:, t], "single-sample distances", rtol=1e-12, atol=0)
        l1 = np.asarray(m.predict(X[t]))
        ctx.check(l1.shape == (1,), "single-sample predict shape %s" % (l1.shape,), "shape")
        ctx.check(want[int(l1[0]), t] <= dmin[t] * (1 + 1e-12), "single-sample predict not nearest", "not-nearest")


def g_stats(draw):
    c = g_points(draw)
    return c


def member_stats(X, cent):
    D = ref.sq_dists(X, cent)
    lab = np.argmin(D, axis=0)
    k = cent.shape[0]
    srt = np.sort(D, axis=0)
    margin = 1.0 if k == 1 else float(((srt[1] - srt[0]) / np.maximum(srt[1], 1e-300)).min())
    w = np.array([(lab == i).mean() for i in range(k)])
    v = np.full((k, X.shape[1]), np.nan)
    for i in range(k):
        if (lab == i).any():
            v[i] = X[lab == i].var(axis=0)
    return lab, w, v, margin


@REG.obligation("cluster_variances_weights", g_stats, quick=500, thorough=12000)
def c_stats(ctx, case):
    """Weights are member fractions, variances the biased per-feature variances of the members, for every chunking."""
    X, cent, chunks = case["X"], case["cent"], case["chunks"]
    n = X.shape[0]
    lab, w, v, margin = member_stats(X, cent)
    if margin < 1e-9:
        ctx.discard("assignment tie")
    m = machine(cent)
    nonempty = ~np.isnan(v[:, 0])
    ctx.note(int(nonempty.sum()) >= 2 and (case["off_mag"] >= 1e4 or len(set(chunks)) >= 2),
             "offset:%g" % case["off_mag"], "empty-cluster" if (~nonempty).any() else None)
    bound = 16 * n * EPS * float((X * X).max()) + 1e-300
    for name, data in (("numpy", sut.present(X, case.get("how", "plain"))), ("dask", sut.dask_rows(X, chunks))):
        gv, gw = m.get_variances_and_weights_for_each_cluster(data)
        gv, gw = np.asarray(gv, float), np.asarray(gw, float)
        ctx.check(gv.shape == v.shape and gw.shape == w.shape, "%s shapes %s %s" % (name, gv.shape, gw.shape), "shape")
        ctx.close(gw, w, name + " cluster weights", rtol=1e-12, atol=1e-15)
        ctx.close(gw.sum(), 1.0, name + " weights sum", rtol=1e-12)
        ctx.close(gv[nonempty], v[nonempty], name + " cluster variances", rtol=1e-9, atol=bound)
        ctx.check((gv[nonempty] >= -bound).all(), name + " negative variance beyond the rounding bound", "negative")
        err = np.abs(gv[nonempty] - v[nonempty]).max() if nonempty.any() else 0.0
        ctx.stat_max("variance error / bound", err / bound)


def g_init(draw):
    c = gen.kmeans_data(draw, max_rows=30)
    c["init"] = gen.kmeans_init(draw, c["X"], c["k"], c["scale"])
    c["iters"] = gen.integer(draw, 0, 3)
    c["floor"] = gen.choice(draw, [EPS, 1e-3 * c["scale"] ** 2, 10.0 * c["scale"] ** 2])
    c["dask"] = gen.boolean(draw)
    c["chunks"] = gen.composition(draw, c["X"].shape[0], max_parts=5)
    c["trainer_used_before"] = gen.choice(draw, [False, False, True])
    return c


@REG.obligation("gmm_init_from_kmeans", g_init, quick=250, thorough=5000)
def c_init(ctx, case):
    """GMMMachine(max_fitting_steps=0, k_means_trainer=km).fit(X) starts from exactly km's centroids,
    max(floor, cluster variances) and cluster weights."""
    from bob.learn.em import GMMMachine, KMeansMachine

    X, k = case["X"], case["k"]
    ini = case["init"]

    def km():
        method = np.array(ini["init"], copy=True) if ini["method"] == "array" else ini["method"]
        return KMeansMachine(k, init_method=method, max_iter=case["iters"], convergence_threshold=None,
                             random_state=int(ini["seed"]))

    data = sut.dask_rows(X, case["chunks"]) if case["dask"] else X
    ref_km = km().fit(data)
    cent = np.array(ref_km.centroids_, dtype=float)
    lab, w, v, margin = member_stats(X, cent)
    if margin < 1e-9:
        ctx.discard("assignment tie")
    if np.isnan(v).any():
        ctx.discard("empty cluster (C13's domain)")
    kv, kw = ref_km.get_variances_and_weights_for_each_cluster(data)
    trainer = km()
    if case.get("trainer_used_before"):
        # the same trainer object already initialised another GMM on other data
        GMMMachine(k, max_fitting_steps=0, k_means_trainer=trainer).fit(X[::-1] * 1.5 + 1.0)
    g = GMMMachine(k, max_fitting_steps=0, k_means_trainer=trainer, mean_var_update_threshold=case["floor"])
    # the machine may be a scikit-learn clone of the configured one, be rebuilt from its get_params(), or have been
    # given (uniform or other) weights at construction: the k-means hand-over decides the starting weights all the same
    import zlib

    route = zlib.crc32(repr((k, float(case["floor"]), X.shape)).encode()) % 4
    if route == 1:
        from sklearn.base import clone

        g = clone(g)
    elif route == 2:
        g = GMMMachine(**g.get_params(deep=False))
    elif route == 3:
        w0 = np.arange(1, k + 1, dtype=float)
        g = GMMMachine(k, max_fitting_steps=0, k_means_trainer=trainer, mean_var_update_threshold=case["floor"], weights=w0 / w0.sum())
    ctx.event("gmm built: %s" % ["directly", "by clone", "from get_params", "with constructor weights"][route])
    g.fit(data)
    floored = bool((np.asarray(kv) < case["floor"]).any())
    ctx.note(k >= 2, "dask" if case["dask"] else "numpy", "floor-active" if floored else "floor-inactive",
             "init:" + ini["method"])
    ctx.close(g.means, cent, "GMM initial means == k-means centroids", rtol=0, atol=0)
    ctx.close(g.weights, np.asarray(kw), "GMM initial weights == cluster weights", rtol=0, atol=0)
    ctx.close(g.variances, np.maximum(case["floor"], np.asarray(kv)), "GMM initial variances == max(floor, cluster variances)",
              rtol=0, atol=0)
    # and those are the member statistics
    n = X.shape[0]
    bound = 16 * n * EPS * float((X * X).max())
    ctx.close(g.weights, w, "GMM initial weights == member fractions", rtol=1e-12)
    ctx.close(g.variances, np.maximum(case["floor"], v), "GMM initial variances == member variances", rtol=1e-9,
              atol=bound)


def g_everychunk(draw):
    c = g_points(draw)
    n = gen.integer(draw, 2, 9 if gen.big() else 6)
    c["X"] = c["X"][:n] if c["X"].shape[0] >= n else c["X"]
    return c


@REG.obligation("every_row_chunking", g_everychunk, quick=30, thorough=600, shard_size=8)
def c_everychunk(ctx, case):
    """ALL 2^(n-1) row-chunkings of the Dask array give the member fractions / member variances and the same distances."""
    import itertools

    X, cent = case["X"], case["cent"]
    n = X.shape[0]
    lab, w, v, margin = member_stats(X, cent)
    if margin < 1e-9:
        ctx.discard("assignment tie")
    m = machine(cent)
    nonempty = ~np.isnan(v[:, 0])
    want_d = ref.sq_dists(X, cent)
    bound = 16 * n * EPS * float((X * X).max()) + 1e-300
    ctx.note(int(nonempty.sum()) >= 2, "n=%d" % n, "offset:%g" % case["off_mag"])
    for cuts in itertools.product([0, 1], repeat=n - 1):
        sizes, cur = [], 1
        for cbit in cuts:
            if cbit:
                sizes.append(cur)
                cur = 1
            else:
                cur += 1
        sizes.append(cur)
        dX = sut.dask_rows(X, sizes)
        gv, gw = m.get_variances_and_weights_for_each_cluster(dX)
        ctx.close(np.asarray(gw, float), w, "cluster weights for chunks %s" % (sizes,), rtol=1e-12, atol=1e-15)
        ctx.close(np.asarray(gv, float)[nonempty], v[nonempty], "cluster variances for chunks %s" % (sizes,), rtol=1e-9, atol=bound)
        ctx.close(np.asarray(m.transform(dX).compute()), want_d, "distances for chunks %s" % (sizes,), rtol=1e-12, atol=0)
        ctx.event("chunkings-tried")


def g_rows(draw):
    return gen.big_rows_case(draw, maxF=6, maxK=4)


@REG.obligation("many_rows", g_rows, quick=12, thorough=200, shard_size=4)
def c_rows(ctx, case):
    """Thousands of rows in one call (1e3 .. 7e4; in memory and in a few large Dask chunks): distances, labels and
    the cluster weights / variances agree with the definition."""
    X, cent = gen.big_rows(case)
    n, k = X.shape[0], cent.shape[0]
    m = machine(cent)
    D = ((X[None, :, :] - cent[:, None, :]) ** 2).sum(axis=2)
    ctx.note(max(case["chunks"]) > 4096, "n>%d" % (10 ** int(np.log10(n))), "F=%d" % X.shape[1])
    got = np.asarray(m.transform(X), float)
    ctx.check(got.shape == (k, n), "transform shape %s" % (got.shape,), "shape")
    ctx.close(got, D, "squared distances (many rows)", rtol=1e-12, atol=1e-300)
    lab = np.asarray(m.predict(X))
    ctx.check(lab.shape == (n,), "predict shape %s" % (lab.shape,), "shape")
    dmin = D.min(axis=0)
    bad = np.nonzero(D[lab, np.arange(n)] > dmin * (1 + 1e-12))[0]
    ctx.check(len(bad) == 0, "%d of %d rows are not labelled with a nearest centroid (first: row %s)" % (len(bad), n, bad[:1]),
              "label")
    dX = sut.dask_rows(X, case["chunks"])
    ctx.close(np.asarray(m.transform(dX).compute(), float), D, "squared distances (many rows, Dask)", rtol=1e-12, atol=1e-300)
    srt = np.sort(D, axis=0)
    if ((srt[1] - srt[0]) / np.maximum(srt[1], 1e-300)).min() < 1e-9:
        ctx.discard("near-tie")
    truth = D.argmin(axis=0)
    sc2 = float((X * X).max())
    for what, data in (("numpy", X), ("dask", dX)):
        v, w = m.get_variances_and_weights_for_each_cluster(data)
        v, w = np.asarray(v, float), np.asarray(w, float)
        for i in range(k):
            members = X[truth == i]
            ctx.close(w[i], len(members) / n, "%s weight of cluster %d (many rows)" % (what, i), rtol=1e-12, atol=1e-15)
            if len(members):
                ctx.close(v[i], members.var(axis=0), "%s variance of cluster %d (many rows)" % (what, i), rtol=1e-9,
                          atol=16 * n * EPS * sc2)


def g_follow(draw):
    c = g_points(draw)
    r = gen.rng(draw)
    k, F = c["cent"].shape
    off = c["cent"].mean(axis=0)
    c["cent2"] = off + c["spread"] * r.normal(0, 2, (k, F))
    c["step"] = gen.choice(draw, ["inplace_assign", "inplace_add", "reassign", "means_setter", "fit"])
    c["pre"] = gen.choice(draw, ["predict", "transform", "both", "stats"])
    return c


@REG.obligation("labels_follow_the_centroids", g_follow, quick=300, thorough=6000)
def c_follow(ctx, case):
    """A machine that has already answered (predict / transform / cluster statistics) and whose centroids then change -
    edited in place, re-assigned, or re-trained - answers for the centroids it holds NOW: distances, labels (NumPy,
    Dask, single sample) and cluster statistics equal the definition evaluated on the current centroids."""
    from bob.learn.em import KMeansMachine

    X, cent, cent2 = case["X"], case["cent"], np.array(case["cent2"], dtype=float)
    k, n = cent.shape[0], X.shape[0]
    m = machine(cent)
    dX = sut.dask_rows(X, case["chunks"])
    if case["pre"] in ("predict", "both"):
        m.predict(X), m.predict(X[0]), m.predict(dX).compute()
    if case["pre"] in ("transform", "both"):
        m.transform(X), m.transform(dX).compute()
    if case["pre"] == "stats":
        m.get_variances_and_weights_for_each_cluster(X)
    step = case["step"]
    if step == "inplace_assign":
        m.centroids_[...] = cent2
    elif step == "inplace_add":
        m.centroids_ += cent2 - cent
        cent2 = np.array(m.centroids_, dtype=float)
    elif step == "reassign":
        m.centroids_ = np.array(cent2)
    elif step == "means_setter":
        m.means = np.array(cent2)
    else:
        m.init_method, m.max_iter, m.convergence_threshold = np.array(cent2), 0, None
        m.fit(X)
    cur = np.asarray(m.centroids_, float)
    ctx.close(cur, cent2, "centroids after %s" % step, rtol=1e-15, atol=0)
    want = ref.sq_dists(X, cur)
    dmin = want.min(axis=0)
    moved = bool((want.argmin(axis=0) != ref.sq_dists(X, cent).argmin(axis=0)).any())
    ctx.note(k >= 2 and moved, "step:" + step, "pre:" + case["pre"])
    ctx.close(np.asarray(m.transform(X), float), want, "squared distances after %s" % step, rtol=1e-12, atol=0)
    ctx.close(np.asarray(m.transform(dX).compute(), float), want, "dask squared distances after %s" % step, rtol=1e-12, atol=0)
    for what, lab in (("predict", np.asarray(m.predict(X))), ("dask predict", np.asarray(m.predict(dX).compute()))):
        chosen = want[lab, np.arange(n)]
        bad = np.nonzero(chosen > dmin * (1 + 1e-12))[0]
        ctx.check(len(bad) == 0, "%s after %s: %d of %d rows are not labelled with a nearest CURRENT centroid"
                  % (what, step, len(bad), n), "not-nearest")
    for t in range(min(n, 3)):
        l1 = int(np.asarray(m.predict(X[t]))[0])
        ctx.check(want[l1, t] <= dmin[t] * (1 + 1e-12), "single-sample predict after %s not nearest" % step, "not-nearest")
    lab, w, v, margin = member_stats(X, cur)
    if margin >= 1e-9:
        gv, gw = m.get_variances_and_weights_for_each_cluster(X)
        ctx.close(np.asarray(gw, float), w, "cluster weights after %s" % step, rtol=1e-12, atol=1e-15)
