"""C02 — GMM statistics are responsibility-weighted moments, additive over any split."""
import copy
import itertools

import numpy as np

from vf import gen, ref, sut
from vf.runner import Registry

REG = Registry(
    "C02",
    rule=(
        "Hypothesis draws a GMM (as C01), 1..14 rows (1..40 thorough), a permutation and a composition of "
        "the rows into blocks (arbitrary blocks = composition of the permuted rows), NumPy or row-chunked "
        "Dask input. Oracles: fields == reference moments built from independently computed posteriors; "
        "n>=0, sum n == t; sum over blocks with + and += == whole; operands not mutated; transform(list) "
        "== acc_stats per array; incompatible shapes refused. One obligation enumerates ALL 2^(n-1) "
        "compositions. Non-trivial: >=2 blocks, a single-row block, and some row with max responsibility "
        "< 0.999."
    ),
    assumptions=["machines as in C01 (positive weights, variances >= floors)",
                 "re-association tolerance 1e-10 relative with an absolute floor t*max|x|^k*1e-13"],
)


def _tols(X):
    t = X.shape[0]
    mx = float(np.abs(X).max()) if X.size else 1.0
    return 1e-13 * t, 1e-13 * t * max(mx, 1e-300), 1e-13 * t * max(mx * mx, 1e-300)


def _cmp_stats(ctx, s, want, X, what, rtol=1e-9):
    a0, a1, a2 = _tols(X)
    ctx.check(int(s["t"]) == int(want["t"]), "%s: t=%r expected %r" % (what, s["t"], want["t"]), "t:" + what)
    ctx.close(s["n"], want["n"], what + " n", rtol=rtol, atol=a0 * 10)
    ctx.close(s["sum_px"], want["sum_px"], what + " sum_px", rtol=rtol, atol=a1 * 10)
    ctx.close(s["sum_pxx"], want["sum_pxx"], what + " sum_pxx", rtol=rtol, atol=a2 * 10)
    ctx.close(s["log_likelihood"], want["log_likelihood"], what + " log_likelihood", rtol=rtol,
              atol=1e-10 * max(1, X.shape[0]))


def _sd(s):
    import dask

    if not isinstance(s.n, np.ndarray) or not isinstance(s.sum_px, np.ndarray):
        t, n, f, ss, ll = dask.compute(s.t, s.n, s.sum_px, s.sum_pxx, s.log_likelihood)
        return {"t": int(t), "n": np.asarray(n), "sum_px": np.asarray(f), "sum_pxx": np.asarray(ss),
                "log_likelihood": float(ll)}
    return sut.stats_dict(s)


def g_formula(draw):
    C, F = gen.dims(draw)
    if gen.choice(draw, [False, False, False, False, True]):
        # a larger, overlapping mixture (every component takes a share of every sample)
        C = gen.choice(draw, [17, 24, 40])
        p = gen.gmm_params(draw, C, F, spread=1.0)
    else:
        p = gen.gmm_params(draw, C, F)
    n = gen.integer(draw, 1, 40 if gen.big() else 14)
    X, kind = gen.data_from(draw, p, n, kind=gen.choice(draw, ["bulk", "bulk", "mixed"]))
    chunks = gen.composition(draw, n)
    how = gen.presentation(draw)
    if how == "int":
        X = gen.integral(X)
    if n >= 2 and gen.choice(draw, [False, False, True]):
        # rows exactly at the origin (silent / zero-padded frames), possibly a whole block of them
        k = gen.integer(draw, 1, min(2, n - 1))
        X = np.array(X, copy=True)
        X[:k] = 0.0
        chunks = [k] + gen.composition(draw, n - k)
    # the machine's configuration (trainer kind, which parameters a later training would update) has no say in what
    # the statistics of a data set are
    cfg = {"trainer": gen.choice(draw, ["ml", "ml", "map"]),
           "upd": [bool(b) for b in gen.choice(draw, [(1, 0, 0), (1, 1, 1), (0, 0, 0), (0, 1, 0), (1, 0, 1)])]}
    return {"p": p, "X": X, "kind": kind, "chunks": chunks, "dask": gen.boolean(draw), "how": how, "machine_cfg": cfg}


def machine_for(case):
    """The case's GMM as an ML machine or as a MAP machine (adapted from a prior with other parameters), with the
    generated update switches; the visible weights, means and variances are the case's."""
    p, cfg = case["p"], case.get("machine_cfg")
    if not cfg:
        return sut.make_gmm(p)
    kw = dict(update_means=cfg["upd"][0], update_variances=cfg["upd"][1], update_weights=cfg["upd"][2])
    if cfg["trainer"] == "ml":
        return sut.make_gmm(p, **kw)
    prior = sut.make_gmm(dict(p, means=np.array(p["means"]) * 0.9 + 0.1))
    g = sut.GMMMachine(n_gaussians=int(p["C"]), trainer="map", ubm=prior, **kw)
    fl = p["floors"]
    g.variance_thresholds = np.array(fl, dtype=float) if np.ndim(fl) else float(fl)
    g.means = np.array(p["means"], dtype=float)
    g.variances = np.array(p["variances"], dtype=float)
    g.weights = np.array(p["weights"], dtype=float)
    return g


@REG.obligation("stats_formula", g_formula, quick=500, thorough=12000)
def c_formula(ctx, case):
    """acc_stats == responsibility-weighted moments from independently computed posteriors."""
    p, X = case["p"], case["X"]
    g = machine_for(case)
    want = ref.gmm_stats(X, p["weights"], p["means"], p["variances"])
    soft = bool((want["post"].max(axis=0) < 0.999).any())
    cfg = case.get("machine_cfg") or {"trainer": "ml", "upd": [1, 0, 0]}
    ctx.note(p["C"] >= 2 and soft, "dask" if case["dask"] else "numpy", "soft-posteriors" if soft else None,
             "machine:%s upd:%d%d%d" % ((cfg["trainer"],) + tuple(int(u) for u in cfg["upd"])))
    if case["dask"]:
        s = _sd(g.acc_stats(sut.dask_rows(X, case["chunks"])))
    else:
        ctx.event("input:" + case.get("how", "plain"))
        s = _sd(g.acc_stats(sut.present(X, case.get("how", "plain"))))
    _cmp_stats(ctx, s, want, X, "acc_stats")
    ctx.check((s["n"] >= 0).all(), "negative responsibility mass %r" % s["n"], "n<0")
    ctx.close(s["n"].sum(), X.shape[0], "sum(n)==t", rtol=1e-12, atol=1e-12 * X.shape[0])
    ctx.check(s["n"].shape == (p["C"],) and s["sum_px"].shape == (p["C"], p["F"])
              and s["sum_pxx"].shape == (p["C"], p["F"]), "field shapes", "shape")
    # a single vector gives the statistics of a one-row batch
    s1 = _sd(g.acc_stats(X[0]))
    w1 = ref.gmm_stats(X[:1], p["weights"], p["means"], p["variances"])
    _cmp_stats(ctx, s1, w1, X[:1], "acc_stats(single vector)")


def g_split(draw):
    c = g_formula(draw)
    n = c["X"].shape[0]
    c["perm"] = gen.permutation(draw, n)
    c["blocks"] = gen.composition(draw, n)
    c["inplace"] = gen.boolean(draw)
    c["from_empty"] = gen.choice(draw, ["no", "fresh", "reset", "resized"])
    # the per-block statistics may have been written to HDF5 and read back with load() into a container that used to
    # have the same or another shape (a reused / placeholder container)
    c["reload"] = gen.choice(draw, ["no", "no", "same_shape", "other_shape"])
    # the blocks may be Dask arrays: acc_stats then returns statistics whose fields are still lazy
    c["lazy_parts"] = gen.choice(draw, [False, False, False, True])
    return c


def _blocks(perm, sizes):
    out, i = [], 0
    for s in sizes:
        out.append(list(perm[i:i + s]))
        i += s
    return out


@REG.obligation("additive_split", g_split, quick=500, thorough=12000)
def c_split(ctx, case):
    """Statistics of any partition of the rows, added with + or +=, equal the statistics of the whole."""
    p, X = case["p"], case["X"]
    g = sut.make_gmm(p)
    want = ref.gmm_stats(X, p["weights"], p["means"], p["variances"])
    soft = bool((want["post"].max(axis=0) < 0.999).any())
    blocks = _blocks(case["perm"], case["blocks"])
    ctx.note(len(blocks) >= 2 and any(len(b) == 1 for b in blocks) and soft and p["C"] >= 2,
             "blocks>=2" if len(blocks) >= 2 else "blocks=1",
             "nonconsecutive" if list(case["perm"]) != sorted(case["perm"]) else "consecutive",
             ("+= from " + case.get("from_empty", "no")) if case["inplace"] else "+")
    lazy = bool(case.get("lazy_parts")) and case.get("reload", "no") == "no"
    if lazy:
        import dask.array as da

        parts = [g.acc_stats(da.from_array(np.ascontiguousarray(X[b]), chunks=(max(1, (len(b) + 1) // 2), -1))) for b in blocks]
        case = dict(case, from_empty="no")  # an in-memory accumulator cannot take lazy operands in place (NotImplementedError)
        ctx.event("blocks are Dask arrays (lazy statistics)")
    else:
        parts = [g.acc_stats(X[b]) for b in blocks]
    if case.get("reload", "no") != "no":
        import os
        import tempfile

        reloaded = []
        for i, s in enumerate(parts):
            fd, path = tempfile.mkstemp(suffix=".h5", prefix="vf_c02_")
            os.close(fd)
            try:
                s.save(path)
                shape = (p["C"], p["F"]) if case["reload"] == "same_shape" else (p["C"] + 1 + i % 2, max(1, p["F"] - 1 + i % 3))
                t = sut.GMMStats(*shape)
                t.n = t.n + 1.0
                t.load(path)
                reloaded.append(t)
            finally:
                try:
                    os.remove(path)
                except OSError:
                    pass
        ctx.event("blocks reloaded from HDF5 into %s containers" % case["reload"].replace("_", "-"))
        parts = reloaded
    snaps = [copy.deepcopy(s) for s in parts]
    if case["inplace"] and case.get("from_empty", "no") != "no":
        # the usual accumulator idiom: start from an empty (or reset) container and += every block
        acc = sut.GMMStats(p["C"], p["F"])
        if case["from_empty"] == "resized":
            # a container of another shape that held something, re-dimensioned through the public resize()
            acc = sut.GMMStats(p["C"] + 1, p["F"] + 2)
            acc.n = acc.n + 1.0
            acc.t = 3
            acc.resize(p["C"], p["F"])
            ctx.check(acc.t == 0 and acc.n.shape == (p["C"],) and acc.sum_px.shape == (p["C"], p["F"]) and not np.any(acc.n),
                      "resize() did not give an empty container of the new shape", "resize")
        if case["from_empty"] == "reset":
            acc += parts[-1]
            acc.reset()
            ctx.check(acc.t == 0 and not np.any(acc.n) and parts[-1] == snaps[-1], "reset() did not give an empty container",
                      "reset")
        for s in parts:
            acc += s
    elif case["inplace"]:
        acc = copy.deepcopy(parts[0])
        for s in parts[1:]:
            acc += s
    else:
        acc = parts[0]
        for s in parts[1:]:
            acc = acc + s
    ctx.check(int(acc.t) == X.shape[0], "sum of t is %r, expected %d" % (acc.t, X.shape[0]), "t")
    _cmp_stats(ctx, _sd(acc), want, X, "sum of blocks", rtol=1e-10)
    # operands untouched ('+' both, '+=' the right-hand sides; the left one is a private copy)
    for s, snap in zip(parts, snaps):
        if lazy:
            same = s.t == snap.t and all(np.array_equal(np.asarray(getattr(s, f)), np.asarray(getattr(snap, f)))
                                         for f in ("n", "sum_px", "sum_pxx"))
        else:
            same = s == snap and s.t == snap.t
        if not same:
            ctx.fail("addition mutated an operand", "operand-mutated")


def g_reduce(draw):
    c = g_formula(draw)
    n = c["X"].shape[0]
    c["perm"] = gen.permutation(draw, n)
    c["blocks"] = gen.composition(draw, n, max_parts=gen.choice(draw, [None, 6, 12]))
    c["trainer"] = gen.choice(draw, ["ml", "ml", "map"])
    c["order_seed"], c["isolate"] = gen.integer(draw, 0, 999), gen.boolean(draw)
    return c


@REG.obligation("blocks_reach_the_m_step", g_reduce, quick=300, thorough=6000)
def c_reduce(ctx, case):
    """The reduction in front of the M-step (module-level m_step given the per-block statistics, and
    GMMMachine.fit on a Dask array chunked in the same blocks) consumes the sum over ALL blocks: same model and
    same reported average log-likelihood as the M-step on the whole-set statistics."""
    import bob.learn.em.gmm as G
    from bob.learn.em import GMMMachine

    from vf import sched

    p, X = case["p"], case["X"]
    blocks = _blocks(case["perm"], case["blocks"])
    kw = dict(update_means=True, update_variances=True, update_weights=True, max_fitting_steps=1,
              convergence_threshold=None)

    def fresh():
        if case["trainer"] == "map":
            return GMMMachine(int(p["C"]), trainer="map", ubm=sut.make_gmm(p), map_relevance_factor=4.0, **kw)
        return sut.make_gmm(p, **kw)

    g0 = fresh()
    want = ref.gmm_stats(X, p["weights"], p["means"], p["variances"])
    if (want["n"] < 1e-6).any():
        ctx.discard("starved component (variance update ill-conditioned)")
    ctx.note(len(blocks) >= 3 and p["C"] >= 2, "blocks=%s" % (len(blocks) if len(blocks) < 9 else ">=9"),
             "odd" if len(blocks) % 2 else "even", "trainer:" + case["trainer"])
    whole = g0.acc_stats(X)
    parts = [g0.acc_stats(X[b]) for b in blocks]
    a, b_ = fresh(), fresh()
    _, avg_whole = G.m_step([copy.deepcopy(whole)], a)
    _, avg_parts = G.m_step([copy.deepcopy(s) for s in parts], b_)
    sc = float(np.abs(X).max()) + 1e-300
    tol_v = 64 * X.shape[0] * 2.220446049250313e-16 * sc * sc

    def same(m, what):
        pw, pm, pv = sut.params_of(m)
        qw, qm, qv = sut.params_of(a)
        ctx.close(pw, qw, what + ": weights", rtol=1e-9, atol=1e-12)
        ctx.close(pm, qm, what + ": means", rtol=1e-9, atol=1e-12 * sc)
        ctx.close(pv, qv, what + ": variances", rtol=1e-8, atol=tol_v)

    same(b_, "m_step(per-block statistics) vs m_step(whole-set statistics)")
    ctx.close(avg_parts, avg_whole, "average log-likelihood reported by m_step(per-block statistics)", rtol=1e-10,
              atol=1e-9)
    ctx.close(avg_whole, want["log_likelihood"] / X.shape[0], "average log-likelihood vs reference", rtol=1e-9, atol=1e-9)
    # the same blocks as the chunks of a Dask array (consecutive rows of the permuted data), one training step
    Xp = X[np.concatenate([np.asarray(b, dtype=int) for b in blocks])]
    d = fresh()
    with sched.owned("random", int(case["order_seed"]), bool(case["isolate"])):
        d.fit(sut.dask_rows(Xp, [len(b) for b in blocks]))
    same(d, "fit(1 step) on a Dask array with these blocks vs m_step(whole-set statistics)")


def g_all(draw):
    C, F = gen.dims(draw, maxC=3, maxF=3)
    p = gen.gmm_params(draw, C, F)
    n = gen.integer(draw, 2, 10 if gen.big() else 7)
    X, kind = gen.data_from(draw, p, n, kind="bulk")
    return {"p": p, "X": X}


@REG.obligation("all_compositions", g_all, quick=25, thorough=400)
def c_all(ctx, case):
    """Every one of the 2^(n-1) compositions of the rows into consecutive blocks adds up to the whole."""
    p, X = case["p"], case["X"]
    g = sut.make_gmm(p)
    n = X.shape[0]
    want = ref.gmm_stats(X, p["weights"], p["means"], p["variances"])
    ctx.note(p["C"] >= 2, "n=%d" % n)
    for cuts in itertools.product([0, 1], repeat=n - 1):
        sizes, cur = [], 1
        for c in cuts:
            if c:
                sizes.append(cur)
                cur = 1
            else:
                cur += 1
        sizes.append(cur)
        i, acc = 0, None
        for s in sizes:
            st = g.acc_stats(X[i:i + s])
            acc = st if acc is None else acc + st
            i += s
        _cmp_stats(ctx, _sd(acc), want, X, "composition %s" % (sizes,), rtol=1e-10)
        ctx.event("compositions")


def g_transform(draw):
    C, F = gen.dims(draw)
    p = gen.gmm_params(draw, C, F)
    k = gen.integer(draw, 1, 4)
    arrays = []
    for _ in range(k):
        n = gen.integer(draw, 1, 8)
        X, _ = gen.data_from(draw, p, n, kind="bulk")
        arrays.append(X)
    return {"p": p, "arrays": arrays}


@REG.obligation("transform_list", g_transform, quick=150, thorough=3000)
def c_transform(ctx, case):
    """transform(list of arrays) returns one statistics object per array, equal to acc_stats of each."""
    p = case["p"]
    g = sut.make_gmm(p)
    arrays = case["arrays"]
    out = g.transform(arrays)
    ctx.note(len(arrays) >= 2 and p["C"] >= 2, "k=%d" % len(arrays))
    ctx.check(len(out) == len(arrays), "transform returned %d items for %d arrays" % (len(out), len(arrays)), "len")
    for X, s in zip(arrays, out):
        want = ref.gmm_stats(X, p["weights"], p["means"], p["variances"])
        _cmp_stats(ctx, _sd(s), want, X, "transform item")


def g_mismatch(draw):
    C, F = gen.dims(draw, maxC=4, maxF=4)
    C2, F2 = gen.dims(draw, maxC=4, maxF=4)
    r = gen.rng(draw)
    a = gen.fractional_stats(draw, C, F, r.normal(0, 1, (C, F)), np.ones((C, F)), r=r)
    b = gen.fractional_stats(draw, C2, F2, r.normal(0, 1, (C2, F2)), np.ones((C2, F2)), r=r)
    # a fresh, still empty container on one side (how every accumulation starts) is a frequent operand
    return {"a": a, "b": b, "inplace": gen.boolean(draw), "empty": gen.choice(draw, [None, None, "a", "b", "both"])}


@REG.obligation("shape_refused", g_mismatch, quick=150, thorough=2000)
def c_mismatch(ctx, case):
    """Adding statistics of incompatible shapes raises ValueError and changes neither operand;
    compatible shapes add field by field."""
    from bob.learn.em import GMMStats

    a, b = sut.make_stats(case["a"]), sut.make_stats(case["b"])
    if case.get("empty") in ("a", "both"):
        a = GMMStats(a.n_gaussians, a.n_features)
    if case.get("empty") in ("b", "both"):
        b = GMMStats(b.n_gaussians, b.n_features)
    sa, sb = copy.deepcopy(a), copy.deepcopy(b)
    same = (a.n_gaussians, a.n_features) == (b.n_gaussians, b.n_features)
    ctx.note(not same, "mismatch" if not same else "compatible", "+=" if case["inplace"] else "+",
             "empty-operand:%s" % case.get("empty"))
    if same:
        c = a + b
        ctx.close(c.n, sa.n + sb.n, "n of a+b", rtol=1e-15)
        ctx.close(c.sum_px, sa.sum_px + sb.sum_px, "sum_px of a+b", rtol=1e-15)
        ctx.close(c.sum_pxx, sa.sum_pxx + sb.sum_pxx, "sum_pxx of a+b", rtol=1e-15)
        ctx.check(c.t == sa.t + sb.t, "t of a+b", "t")
        ctx.check(a == sa and b == sb and a.t == sa.t and b.t == sb.t, "a + b mutated an operand", "operand-mutated")
        a += b
        ctx.close(a.sum_pxx, sa.sum_pxx + sb.sum_pxx, "sum_pxx of a+=b", rtol=1e-15)
        ctx.close(a.sum_px, sa.sum_px + sb.sum_px, "sum_px of a+=b", rtol=1e-15)
        ctx.close(a.n, sa.n + sb.n, "n of a+=b", rtol=1e-15)
        ctx.check(a.t == sa.t + sb.t, "t of a+=b", "t")
        ctx.check(b == sb and b.t == sb.t, "a += b mutated b", "operand-mutated")
        return
    try:
        if case["inplace"]:
            a += b
        else:
            a + b
    except ValueError:
        pass
    else:
        ctx.fail("adding statistics of shapes %s and %s was not refused"
                 % ((sa.n_gaussians, sa.n_features), (sb.n_gaussians, sb.n_features)), "not-refused")
    for x, s in ((a, sa), (b, sb)):
        ok = (x.t == s.t and np.array_equal(x.n, s.n) and np.array_equal(x.sum_px, s.sum_px)
              and np.array_equal(x.sum_pxx, s.sum_pxx) and x.log_likelihood == s.log_likelihood)
        ctx.check(ok, "refused addition still changed an operand", "operand-mutated")


def g_rows(draw):
    return gen.big_rows_case(draw)


@REG.obligation("many_rows", g_rows, quick=12, thorough=200, shard_size=4)
def c_rows(ctx, case):
    """Thousands of rows in one acc_stats call (1e3 .. 7e4 rows: any internal batching is exercised): equal to the
    moments computed from independently evaluated posteriors, to the sum over a few large blocks, and to the Dask result."""
    X, cent = gen.big_rows(case)
    k, F = cent.shape
    n = X.shape[0]
    r = np.random.default_rng(int(case["data_seed"]) + 1)
    var = float(case["scale"]) ** 2 * np.exp(r.uniform(-1, 1, (k, F)))
    w = r.dirichlet(np.full(k, 3.0))
    p = {"C": k, "F": F, "weights": w, "means": cent, "variances": var, "floors": 1e-12 * var.min()}
    g = sut.make_gmm(p)
    post = ref.gmm_posteriors(X, w, cent, var)
    want = {"t": n, "n": post.sum(axis=1), "sum_px": post @ X, "sum_pxx": post @ (X * X),
            "log_likelihood": float(ref.gmm_logpdf(X, w, cent, var).sum())}
    ctx.note(max(case["chunks"]) > 4096, "n>%d" % (10 ** int(np.log10(n))))
    whole = g.acc_stats(X)
    _cmp_stats(ctx, _sd(whole), want, X, "statistics of many rows", rtol=1e-9)
    ctx.check(abs(float(np.sum(whole.n)) - n) <= 1e-9 * n, "responsibilities sum to %r for %d rows" % (float(np.sum(whole.n)), n), "sum-n")
    edges = np.cumsum([0] + list(case["chunks"]))
    acc = None
    for a, b in zip(edges[:-1], edges[1:]):
        s = g.acc_stats(X[a:b])
        acc = s if acc is None else acc + s
    _cmp_stats(ctx, _sd(acc), want, X, "sum over large blocks", rtol=1e-9)
    _cmp_stats(ctx, _sd(g.acc_stats(sut.dask_rows(X, case["chunks"]))), want, X, "statistics of a Dask array with large chunks",
               rtol=1e-9)
