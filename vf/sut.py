"""Helpers that build objects of the code under test from generated cases."""
import numpy as np

from bob.learn.em import GMMMachine, GMMStats  # noqa: F401  (imported from ${VERIF_REPO}/src)


def make_gmm(p, floors=True, **kw):
    """A GMMMachine holding the visible parameters of case dict p."""
    kw.setdefault("n_gaussians", int(p["C"]))
    g = GMMMachine(**kw)
    if floors and "floors" in p:
        g.variance_thresholds = np.array(p["floors"], dtype=float) if np.ndim(p["floors"]) else float(p["floors"])
    g.means = np.array(p["means"], dtype=float)
    g.variances = np.array(p["variances"], dtype=float)
    g.weights = np.array(p["weights"], dtype=float)
    return g


def _layout(a, layout):
    """Same values in another memory layout: 'F' column-major, 'strided' a view into a larger buffer."""
    if layout == "lazy":
        # still-lazy arrays, as in the statistics acc_stats returns for a Dask array
        import dask.array as da

        return da.from_array(np.ascontiguousarray(a), chunks=tuple(max(1, -(-k // 2)) for k in a.shape))
    if layout == "F":
        return np.asfortranarray(a)
    if layout == "strided":
        big = np.full(tuple(2 * k for k in a.shape), np.nan)
        view = big[tuple(slice(None, None, 2) for _ in a.shape)]
        view[...] = a
        return view
    return a


def make_stats(d, C=None, F=None, layout="C"):
    n = np.array(d["n"], dtype=float)
    f = np.array(d["sum_px"], dtype=float)
    C = C or f.shape[0]
    F = F or f.shape[1]
    s = GMMStats(C, F)
    s.t = int(d["t"])
    s.n = _layout(n, layout if layout in ("strided", "lazy") else "C")
    s.sum_px = _layout(f, layout)
    s.sum_pxx = _layout(np.array(d.get("sum_pxx", np.zeros_like(f)), dtype=float), layout)
    s.log_likelihood = float(d.get("log_likelihood", 0.0))
    return s


def stats_dict(s):
    return {
        "t": int(s.t),
        "n": np.array(s.n, dtype=float),
        "sum_px": np.array(s.sum_px, dtype=float),
        "sum_pxx": np.array(s.sum_pxx, dtype=float),
        "log_likelihood": float(s.log_likelihood),
    }


def params_of(g):
    return (
        np.array(g.weights, dtype=float),
        np.array(g.means, dtype=float),
        np.array(g.variances, dtype=float),
    )


def dask_rows(X, chunks, unknown=False):
    """Row-chunked Dask array over X.  unknown=True: the same rows and blocks, but obtained by a boolean selection
    with a lazy mask (as after frame filtering), so that the array's shape and chunk sizes are unknown (nan) until
    computed."""
    import dask.array as da

    X = np.asarray(X)
    if not unknown:
        return da.from_array(X, chunks=(tuple(int(c) for c in chunks), X.shape[1]))
    parts, sizes, a = [], [], 0
    for c in chunks:
        c = int(c)
        parts.append(X[a:a + c].astype(float))
        parts.append(np.full((1, X.shape[1]), 1e300))  # one row per block that the mask removes again
        sizes.append(c + 1)
        a += c
    big = da.from_array(np.vstack(parts), chunks=(tuple(sizes), X.shape[1]))
    return big[big[:, 0] < 1e299]


def make_fa(case, **kw):
    """ISVMachine / JFAMachine holding the generated U, V, D over the generated UBM."""
    from bob.learn.em import ISVMachine, JFAMachine

    ubm = make_gmm(case["ubm"])
    if case.get("ubm_seeded"):
        # the UBM is an ML machine that was warm-started from another GMM (GMMMachine(C, trainer="ml", ubm=seed)): it
        # still carries that seed in its `ubm` attribute, but it is NOT a MAP machine - everything refers to ITS OWN
        # parameters
        seed_p = dict(case["ubm"], means=np.array(case["ubm"]["means"]) * 0.7 - 0.4,
                      variances=np.array(case["ubm"]["variances"]) * 1.6)
        m0 = GMMMachine(n_gaussians=int(case["ubm"]["C"]), trainer="ml", ubm=make_gmm(seed_p))
        m0.variance_thresholds = ubm.variance_thresholds
        m0.means, m0.variances, m0.weights = np.array(ubm.means), np.array(ubm.variances), np.array(ubm.weights)
        ubm = m0
    first = ubm
    if case.get("swap_ubm"):
        # the machine is built on ANOTHER UBM of the same shape and given its final UBM afterwards through the
        # public attribute: everything computed later must refer to the UBM the machine holds now
        other = dict(case["ubm"])
        other["means"] = np.array(case["ubm"]["means"]) * 1.3 + 0.7
        other["variances"] = np.array(case["ubm"]["variances"]) * 2.5
        first = make_gmm(other)
    U = np.array(case["U"], dtype=float)
    if case["jfa"]:
        m = JFAMachine(r_U=U.shape[1], r_V=np.asarray(case["V"]).shape[1], ubm=first, **kw)
    else:
        m = ISVMachine(r_U=U.shape[1], ubm=first, **kw)
    if case.get("swap_ubm"):
        if case["swap_ubm"] == "after_use":
            m.estimate_x([first.acc_stats(np.array(case["ubm"]["means"][:1]))])
        m.ubm = ubm
    if case["jfa"]:
        m.V = np.array(case["V"], dtype=float)
    m.U = U
    m.D = np.array(case["D"], dtype=float)
    return m


def sessions_of(case, key="sessions"):
    return [make_stats(s, layout=case.get("stats_layout", "C")) for s in case[key]]


def nf(sessions):
    return [(np.asarray(s["n"], float), np.asarray(s["sum_px"], float)) for s in sessions]


def fa_ref(case):
    from vf import ref

    p = case["ubm"]
    return ref.FA(p["means"], p["variances"], case["U"], case["D"], case["V"] if case["jfa"] else None)


def present(X, how):
    """Same values, different container / layout / dtype (see gen.presentation)."""
    X = np.asarray(X)
    if how == "row1d":
        # one frame as a 1-D vector of n_features values
        return np.array(X[0], dtype=float) if X.ndim == 2 and X.shape[0] == 1 else X.astype(float)
    if how == "fortran":
        return np.asfortranarray(X.astype(float))
    if how == "strided":
        big = np.full((2 * X.shape[0], 2 * X.shape[1] + 1) if X.ndim == 2 else (2 * X.shape[0],), np.nan)
        if X.ndim == 2:
            big[::2, 1::2] = X
            return big[::2, 1::2]
        big[::2] = X
        return big[::2]
    if how == "list":
        return X.astype(float).tolist()
    if how == "int":
        # the narrowest integer dtype that holds the (integral) values: squares and sums must not be
        # formed in that dtype by the code under test
        Xi = np.rint(X)
        lo, hi = (float(Xi.min()), float(Xi.max())) if Xi.size else (0.0, 0.0)
        for dt in (np.uint8, np.int8, np.int16, np.int32):
            info = np.iinfo(dt)
            if lo >= info.min and hi <= info.max:
                return Xi.astype(dt)
        return Xi.astype(np.int64)
    return X.astype(float)
