"""Termination guards owned by the harness.

Training loops of the code under test run ``while cap is None or step < cap`` and leave through the stop rule.
A change that breaks the stop rule or the cap (or makes the criterion NaN) can therefore make a *generated* case
run forever.  Two guards turn that into a decided outcome instead of a hung check:

* a deterministic one: the module-level M-step functions that the ``fit`` loops call once per iteration
  (``bob.learn.em.gmm.m_step``, ``bob.learn.em.kmeans.m_step``) are wrapped by counting pass-through functions.
  ``budget(limit)`` states how many iterations the case in hand may perform at most (the stop rule and the cap
  bound it); one more raises ``Runaway`` from inside the training loop, which the runner reports like any other
  exception escaping the code under test (a violation: "performs exactly min(k*, cap) iterations" is part of the
  statements concerned).  The wrappers are module-level functions so that cloudpickle ships them by reference to the
  isolating executor and the count is shared.
* a wall-clock watchdog per case (SIGALRM): this is only a safety net for loops the counter does not see.  Hitting
  it is *inconclusive* (harness exit 2), never a violation.
"""
import contextlib
import os
import signal

DEFAULT_LIMIT = 20000          # M-steps per case when the obligation states nothing tighter
CASE_SECONDS = float(os.environ.get("VERIF_CASE_SECONDS", "900"))

_STATE = {"n": 0, "limit": DEFAULT_LIMIT}
_ORIG = {}


class Runaway(Exception):
    pass


class CaseTimeout(BaseException):
    pass


def _tick(which):
    _STATE["n"] += 1
    if _STATE["limit"] is not None and _STATE["n"] > _STATE["limit"]:
        raise Runaway("training still iterating: %s M-step number %d, but the stop rule and the cap of this case "
                      "allow at most %d" % (which, _STATE["n"], _STATE["limit"]))


def _gmm_m_step(*a, **k):
    _tick("GMM")
    return _ORIG["gmm"](*a, **k)


def _kmeans_m_step(*a, **k):
    _tick("k-means")
    return _ORIG["kmeans"](*a, **k)


def install():
    """Idempotent; called once per process by the runner after the code under test was imported."""
    if _ORIG:
        return
    import bob.learn.em.gmm as g
    import bob.learn.em.kmeans as km

    if callable(getattr(g, "m_step", None)):
        _ORIG["gmm"] = g.m_step
        g.m_step = _gmm_m_step
    if callable(getattr(km, "m_step", None)):
        _ORIG["kmeans"] = km.m_step
        km.m_step = _kmeans_m_step


def reset(limit=DEFAULT_LIMIT):
    _STATE["n"], _STATE["limit"] = 0, limit


def steps():
    return _STATE["n"]


@contextlib.contextmanager
def budget(limit):
    """At most `limit` further M-steps inside the block."""
    old = dict(_STATE)
    _STATE["n"], _STATE["limit"] = 0, int(limit)
    try:
        yield
    finally:
        _STATE["n"], _STATE["limit"] = old["n"] + _STATE["n"], old["limit"]


def _on_alarm(signum, frame):
    where = []
    f = frame
    while f is not None and len(where) < 6:
        where.append("%s:%s:%d" % (os.path.basename(f.f_code.co_filename), f.f_code.co_name, f.f_lineno))
        f = f.f_back
    raise CaseTimeout("one generated case ran for more than %.0f s (inconclusive, not a violation); stack: %s"
                      % (CASE_SECONDS, " < ".join(where)))


@contextlib.contextmanager
def watchdog():
    try:
        old = signal.signal(signal.SIGALRM, _on_alarm)
    except ValueError:  # not in the main thread
        yield
        return
    signal.setitimer(signal.ITIMER_REAL, CASE_SECONDS)
    try:
        yield
    finally:
        signal.setitimer(signal.ITIMER_REAL, 0)
        signal.signal(signal.SIGALRM, old)
