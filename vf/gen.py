"""Hypothesis-driven generators.

Two layers: a *skeleton* drawn with ordinary strategies (dimensions, scale
exponents, flags, compositions, permutations — this is what shrinks) and *bulk
values* from ``numpy.random.Generator(PCG64(k))`` with ``k`` a Hypothesis-drawn
integer.  Everything is a pure function of Hypothesis choices; replay files
store the materialised arrays.
"""
import numpy as np
from hypothesis import strategies as st

from vf import runner

EPS = np.finfo(float).eps


def big():
    return runner.thorough()


def rng(draw):
    return np.random.Generator(np.random.PCG64(draw(st.integers(0, 2**32 - 1))))


def integer(draw, lo, hi):
    return draw(st.integers(lo, hi))


def choice(draw, options):
    return draw(st.sampled_from(list(options)))


def boolean(draw, p_hint=None):
    return draw(st.booleans())


def dims(draw, maxC=5, maxF=4, minC=1, minF=1):
    if big():
        maxC, maxF = maxC + 3, maxF + 2
    return integer(draw, minC, maxC), integer(draw, minF, maxF)


def feature_scales(draw, F, lo=-3, hi=4):
    """Per-feature scale 10^e, deliberately mixed inside one model."""
    mode = choice(draw, ["unit", "mixed", "mixed", "common"])
    if mode == "unit":
        return np.ones(F)
    if mode == "common":
        return np.full(F, 10.0 ** integer(draw, lo, hi))
    return np.array([10.0 ** integer(draw, lo, hi) for _ in range(F)])


def feature_offsets(draw, F, scales, kmax=30.0):
    """Offsets in units of the feature scale: 0, +-3, +-kmax."""
    ks = [choice(draw, [0.0, 0.0, 3.0, -3.0, kmax, -kmax]) for _ in range(F)]
    return np.array(ks) * scales


def weights(draw, C, r):
    kind = choice(draw, ["uniform", "dirichlet", "skewed"])
    if C == 1 or kind == "uniform":
        return np.full(C, 1.0 / C)
    if kind == "dirichlet":
        w = r.dirichlet(np.ones(C))
    else:
        w = r.dirichlet(np.full(C, 0.2))
    w = np.maximum(w, 1e-6)
    return w / w.sum()


def floors(draw, C, F, scales, r, allow_zero=False):
    """(kind, value): scalar / per-feature / per-component-and-feature variance floors."""
    kinds = ["default", "scalar", "vector", "matrix", "vector", "matrix", "column", "row"]
    if allow_zero:
        kinds.append("zero")
    kind = choice(draw, kinds)
    if kind == "default":
        return kind, EPS
    if kind == "zero":
        return kind, 0.0
    e = integer(draw, -8, -1)
    if kind == "scalar":
        return kind, float(10.0**e * (scales.min() ** 2))
    if kind == "vector":
        return kind, 10.0**e * scales**2 * np.exp(r.uniform(-1, 1, F))
    if kind == "column":  # one floor per component, as a (C, 1) column that broadcasts over the features
        return kind, 10.0**e * (scales.min() ** 2) * np.exp(r.uniform(-1, 1, (C, 1)))
    if kind == "row":  # per-feature floors as a (1, F) row
        return kind, 10.0**e * (scales**2)[None, :] * np.exp(r.uniform(-1, 1, (1, F)))
    return kind, 10.0**e * (scales**2)[None, :] * np.exp(r.uniform(-1, 1, (C, F)))


def gmm_params(draw, C, F, allow_zero_floor=False, kmax=30.0, spread=3.0, scales=None,
               offs=None):
    r = rng(draw)
    if scales is None:
        scales = feature_scales(draw, F)
    if offs is None:
        offs = feature_offsets(draw, F, scales, kmax)
    means = offs[None, :] + scales[None, :] * r.normal(0, spread, (C, F))
    if C > 1 and boolean(draw):
        # two components close to each other (posteriors far from one-hot)
        j = integer(draw, 1, C - 1)
        means[j] = means[0] + scales * r.normal(0, 0.5, F)
    variances = scales[None, :] ** 2 * np.exp(r.uniform(-2, 2, (C, F)))
    fk, fv = floors(draw, C, F, scales, r, allow_zero=allow_zero_floor)
    variances = np.maximum(variances, fv)
    return {
        "C": C,
        "F": F,
        "scales": scales,
        "offsets": offs,
        "weights": weights(draw, C, r),
        "means": means,
        "variances": variances,
        "floor_kind": fk,
        "floors": fv if np.ndim(fv) else float(fv),
    }


def data_from(draw, p, n, kind=None, r=None):
    """Rows drawn around the model p: bulk / tails / mixed / duplicates."""
    r = r or rng(draw)
    C, F = p["C"], p["F"]
    kind = kind or choice(draw, ["bulk", "bulk", "mixed", "tails"])
    comp = r.integers(0, C, n)
    sd = np.sqrt(p["variances"])
    X = p["means"][comp] + sd[comp] * r.normal(0, 1, (n, F))
    if kind in ("tails", "mixed"):
        k = 10.0 ** r.uniform(1, 4 if kind == "tails" else 2.5, n)
        sign = r.choice([-1.0, 1.0], (n, F))
        far = p["means"][comp] + sd[comp] * k[:, None] * sign
        if kind == "tails":
            X = far
        else:
            m = r.random(n) < 0.4
            X[m] = far[m]
    return X, kind


def composition(draw, n, max_parts=None):
    """A composition of n into positive parts (chunk sizes)."""
    if n <= 1:
        return [n] if n else []
    cuts = draw(st.lists(st.booleans(), min_size=n - 1, max_size=n - 1))
    parts, cur = [], 1
    for c in cuts:
        if c and (max_parts is None or len(parts) + 1 < max_parts):
            parts.append(cur)
            cur = 1
        else:
            cur += 1
    parts.append(cur)
    return parts


def permutation(draw, n):
    return draw(st.permutations(list(range(n))))


def fractional_stats(draw, C, F, means, variances, n_frames=None, r=None, zero_prob=0.0):
    """A statistics triple built from weighted data, so n, sum_px, sum_pxx are consistent."""
    r = r or rng(draw)
    T = n_frames if n_frames is not None else integer(draw, 1, 12)
    comp = r.integers(0, C, T)
    X = means[comp] + np.sqrt(variances[comp]) * r.normal(0, 1.5, (T, F))
    R = r.dirichlet(np.full(C, 0.7), T).T  # (C, T), columns sum to 1
    if zero_prob > 0:
        dead = r.random(C) < zero_prob
        if dead.all():
            dead[r.integers(0, C)] = False
        R[dead] = 0.0
    n = R.sum(axis=1)
    f = R @ X
    s = R @ (X * X)
    return {"t": int(T), "n": n, "sum_px": f, "sum_pxx": s}


def gmm_training_case(draw, max_rows=None, min_rows=2):
    """Training data from a 'true' mixture plus a different initial model near the data."""
    C, F = dims(draw, maxC=4, maxF=3)
    r = rng(draw)
    scales = feature_scales(draw, F, lo=-2, hi=3)
    offs = feature_offsets(draw, F, scales, kmax=10.0)
    truth = gmm_params(draw, C, F, scales=scales, offs=offs)
    n = integer(draw, max(min_rows, 1), max_rows or (60 if big() else 30))
    X, _ = data_from(draw, truth, n, kind="bulk", r=r)
    if boolean(draw) and n >= 4:  # duplicates
        X[r.integers(0, n)] = X[r.integers(0, n)]
    idx = r.integers(0, n, C)
    means = X[idx] + scales[None, :] * r.normal(0, 0.7, (C, F))
    variances = scales[None, :] ** 2 * np.exp(r.uniform(-1, 1.5, (C, F)))
    fk, fv = floors(draw, C, F, scales, r)
    variances = np.maximum(variances, fv)
    init = {"C": C, "F": F, "weights": weights(draw, C, r), "means": means, "variances": variances,
            "floor_kind": fk, "floors": fv if np.ndim(fv) else float(fv)}
    upd = list(choice(draw, [(1, 1, 1), (1, 0, 0), (0, 1, 0), (0, 0, 1), (1, 1, 0), (1, 0, 1), (0, 1, 1),
                             (0, 0, 0)]))  # means, variances, weights
    upd = [bool(u) for u in upd]
    return {"X": X, "init": init, "upd": upd, "scales": scales}


def kmeans_data(draw, max_rows=None, min_rows=3, maxF=4, degenerate=False, slow=False):
    """Rows for k-means: blobs / uniform / with duplicates; slow=True gives 1-D uniform rows, which
    from a corner initialisation need 10-20 Lloyd iterations to converge."""
    r = rng(draw)
    if slow:
        k = choice(draw, [5, 4, 3])
        n = integer(draw, 30, 60)
        scale = 10.0 ** integer(draw, -3, 3)
        offset = scale * choice(draw, [0.0, 10.0])
        return {"X": offset + scale * r.uniform(-1, 1, (n, 1)), "k": k, "scale": scale, "kind": "slow-1d"}
    F = integer(draw, 1, maxF + (2 if big() else 0))
    k = choice(draw, [3, 2, 4, 5, 3, 1])
    n = integer(draw, max(min_rows, k), max_rows or (60 if big() else 30))
    scale = 10.0 ** integer(draw, -3, 3)
    offset = scale * choice(draw, [0.0, 0.0, 10.0, -100.0])
    kind = choice(draw, ["blobs", "blobs", "uniform", "dupes", "grid"])
    if kind == "grid":
        # integer lattice points: exact ties between centroids (and duplicates) are common
        X = r.integers(0, 5, (n, F)).astype(float)
    elif kind == "uniform":
        X = r.uniform(-1, 1, (n, F))
    else:
        centres = r.normal(0, 3, (k, F))
        X = centres[r.integers(0, k, n)] + r.normal(0, choice(draw, [0.1, 0.5, 1.5]), (n, F))
    if kind == "dupes" and n >= 3:
        for _ in range(integer(draw, 1, max(1, n // 3))):
            X[r.integers(0, n)] = X[r.integers(0, n)]
    if kind == "grid":
        scale, offset = float(choice(draw, [1.0, 1.0, 4.0])), 0.0
    X = offset + scale * X
    return {"X": X, "k": k, "scale": scale, "kind": kind}


def kmeans_init(draw, X, k, scale, corner=False):
    """Explicit initial centroids (data rows + noise) or a seeded initialiser."""
    r = rng(draw)
    method = "corner" if corner else choice(draw, ["array", "corner", "array", "random", "k-means||", "corner"])
    if method == "array":
        idx = r.choice(X.shape[0], size=k, replace=X.shape[0] < k)
        init = X[idx] + scale * r.normal(0, 0.3, (k, X.shape[1]))
        if np.array_equal(X, np.rint(X)) and choice(draw, [True, True, False]):
            # lattice data: distinct data rows themselves as centroids (exactly tied samples are likely)
            rows = np.unique(X, axis=0)
            if len(rows) >= k:
                init = rows[r.choice(len(rows), size=k, replace=False)].astype(float)
        if scale >= 1 and choice(draw, [False, False, True]):
            # an explicit array of INTEGER dtype is a valid initial centroid set too
            cand = np.rint(init).astype(np.int64)
            if len({tuple(row) for row in cand.tolist()}) == k:
                init = cand
        return {"method": "array", "init": init, "seed": 0}
    if method == "corner":
        # all initial centroids in one corner of the data: many iterations before convergence
        order = np.argsort(X[:, 0], kind="stable")
        idx = order[np.arange(k) % X.shape[0]]
        init = X[idx] + 0.0
        return {"method": "array", "init": init, "seed": 0, "corner": True}
    return {"method": method, "init": None, "seed": integer(draw, 0, 2**16)}


def fa_case(draw, jfa=None, max_sessions=5, maxC=3, maxF=3, d_alive=None, scale_lo=-1, scale_hi=2):
    """UBM + U, V, D with generated relative scales + a list of enrolment/probe sessions."""
    C, F = dims(draw, maxC=maxC, maxF=maxF)
    if big():
        C, F = min(C, 4), min(F, 4)
    r = rng(draw)
    scales = feature_scales(draw, F, lo=scale_lo, hi=scale_hi)
    ubm = gmm_params(draw, C, F, scales=scales, kmax=5.0)
    sd = np.sqrt(ubm["variances"]).ravel()
    jfa = boolean(draw) if jfa is None else jfa
    rU = integer(draw, 1, 3)
    rV = integer(draw, 1, 3) if jfa else 0
    u_scale = 10.0 ** choice(draw, [0, -1, 0, 1, -2])
    v_scale = 10.0 ** choice(draw, [0, -1, 0, 1, -2])
    d_exp = choice(draw, [0, 0, -1, 1, -3, -10]) if d_alive is None else (choice(draw, [0, 0, -1, 1]) if d_alive else -10)
    d_scale = 10.0 ** d_exp
    U = sd[:, None] * u_scale * r.normal(0, 1, (C * F, rU))
    V = sd[:, None] * v_scale * r.normal(0, 1, (C * F, rV)) if jfa else None
    D = sd * d_scale * np.exp(r.uniform(-1, 1, C * F))
    if choice(draw, [False, False, True]):
        D = D * r.choice([-1.0, 1.0], C * F)  # the model depends on D only through D*z: any sign is valid
    H = integer(draw, 1, max_sessions)
    sessions = [fractional_stats(draw, C, F, ubm["means"], ubm["variances"], n_frames=integer(draw, 1, 15), r=r,
                                 zero_prob=choice(draw, [0.0, 0.0, 0.3]))
                for _ in range(H)]
    sessions = share_counts(draw, sessions, ubm["variances"], r)
    return {"ubm": ubm, "jfa": bool(jfa), "U": U, "V": V, "D": D, "sessions": sessions,
            "u_scale": u_scale, "v_scale": v_scale, "d_exp": int(d_exp),
            "stats_layout": choice(draw, ["C", "C", "C", "F", "strided"]),
            "swap_ubm": choice(draw, [False, False, False, "plain", "after_use"])}


def revive_dead_components(sessions, means, variances):
    """Every component gets a positive total count over the training set (a component empty in EVERY
    statistic has no defined subspace rows; ISV/JFA refuse it with LinAlgError)."""
    tot = sum(s["n"] for s in sessions)
    for c in np.where(tot <= 0)[0]:
        s = sessions[0]
        s["n"][c] = 0.5
        s["sum_px"][c] = 0.5 * means[c]
        if "sum_pxx" in s:
            s["sum_pxx"][c] = 0.5 * (means[c] ** 2 + variances[c])
    return sessions


PRESENTATIONS = ["plain", "plain", "plain", "fortran", "strided", "list", "int"]


def presentation(draw, X=None):
    """How a caller hands the same numbers over: C-order float64 (default), Fortran order, a strided view of a
    larger buffer, nested Python lists, or an integer-typed array (only when the case's values are integral;
    the caller of this function rounds them first).  The reference always sees the float64 values."""
    return choice(draw, PRESENTATIONS)


def presentation_for(draw, case, key="X"):
    """presentation() for a training case with per-feature 'scales': the integer-typed presentation is chosen only
    when every feature spreads over >= 10 units, and the case's rows are then rounded (so the reference, which sees
    case[key] as float64, and the code under test, which sees the narrowest integer dtype, get the same values)."""
    how = presentation(draw)
    if how == "int":
        if float(np.min(case["scales"])) >= 10.0:
            case[key] = np.rint(np.asarray(case[key], dtype=float))
        else:
            how = "plain"
    return how


def integral(X, scale=1.0):
    """Round the rows to integers (in units that keep them distinct enough) for the 'int' presentation."""
    return np.rint(np.asarray(X, dtype=float))


def share_counts(draw, sessions, variances, r):
    """Give some sessions BIT-IDENTICAL zeroth-order statistics (as hard/integer counts or equal-length sessions
    with equal alignments produce): session j becomes session i's data shifted by a per-feature delta."""
    if len(sessions) < 2 or not choice(draw, [False, False, True]):
        return sessions
    sd = np.sqrt(np.asarray(variances)).mean(axis=0)
    for j in range(1, len(sessions)):
        if r.random() < 0.6:
            i = int(r.integers(0, j))
            a = sessions[i]
            d = sd * r.normal(0, 1.0, sd.shape)
            n = a["n"].copy()
            f = a["sum_px"] + n[:, None] * d[None, :]
            out = {"t": a["t"], "n": n, "sum_px": f}
            if "sum_pxx" in a:
                out["sum_pxx"] = a["sum_pxx"] + 2 * d[None, :] * a["sum_px"] + n[:, None] * d[None, :] ** 2
            sessions[j] = out
    return sessions


def with_empty_chunks(draw, sizes):
    """Insert zero-length blocks into a chunk composition (Dask arrays may carry them, e.g. after filtering)."""
    if not choice(draw, [False, False, False, True]):
        return sizes
    out = list(sizes)
    for _ in range(integer(draw, 1, 2)):
        out.insert(integer(draw, 0, len(out)), 0)
    return out


BIG_ROWS = [1025, 4097, 5000, 8193, 20000, 66000]


def big_rows_case(draw, maxF=3, maxK=3, many_clusters=False):
    """A seed-only description of thousands of rows around k centres (rebuilt by big_rows(case); a 66000-row array
    does not belong in a replay file), cut into a few large uneven chunks."""
    n = choice(draw, BIG_ROWS) + integer(draw, 0, 7)
    k = integer(draw, 2, maxK)
    if many_clusters and choice(draw, [False, False, True]):
        # rows x clusters beyond 2**20 (a distance matrix of 8 MiB): 32 clusters and 4e4 .. 7e4 rows
        n, k = choice(draw, [40000, 66000]) + integer(draw, 0, 7), 32
        if boolean(draw):
            n, k = 5000 + integer(draw, 0, 7), 80  # many clusters in few dimensions
    cuts = sorted(set(integer(draw, 1, n - 1) for _ in range(integer(draw, 1, 4))))
    return {"F": integer(draw, 1, maxF), "k": k, "n": n, "scale": 10.0 ** integer(draw, -2, 2),
            "data_seed": integer(draw, 0, 2**31 - 1), "sorted": boolean(draw),
            "chunks": [b - a for a, b in zip([0] + cuts, cuts + [n])]}


def big_rows(case):
    """-> X (n, F), centres-with-noise (k, F): a pure function of the case."""
    r = np.random.default_rng(int(case["data_seed"]))
    F, k, n, scale = int(case["F"]), int(case["k"]), int(case["n"]), float(case["scale"])
    centres = r.normal(0, 3, (k, F))
    lab = r.integers(0, k, n)
    if case["sorted"]:
        lab = np.sort(lab)
    X = scale * (centres[lab] + r.normal(0, 1.0, (n, F)))
    init = X[r.choice(n, size=k, replace=False)] + scale * r.normal(0, 0.3, (k, F))
    return X, init
