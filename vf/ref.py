"""Reference models written from the mathematical definitions.

Plain NumPy/SciPy, deliberately not mirroring the implementation's code paths:
no cached normalisers, no in-place accumulation, dense solves instead of
explicit inverses, per-sample / per-component loops instead of vectorised
contractions.
"""
import numpy as np
from scipy.special import logsumexp
from scipy.stats import norm

# ----------------------------------------------------------------------------
# GMM


def gmm_log_weighted(X, w, mu, var):
    """(C, n): log w_c + log N(x_t; mu_c, diag var_c), from scipy.stats.norm."""
    X = np.atleast_2d(np.asarray(X, dtype=float))
    C = len(w)
    out = np.empty((C, X.shape[0]))
    for c in range(C):
        lp = norm.logpdf(X, loc=mu[c][None, :], scale=np.sqrt(var[c])[None, :])
        out[c] = np.log(w[c]) + lp.sum(axis=1)
    return out


def gmm_logpdf(X, w, mu, var):
    return logsumexp(gmm_log_weighted(X, w, mu, var), axis=0)


def gmm_posteriors(X, w, mu, var):
    lw = gmm_log_weighted(X, w, mu, var)
    return np.exp(lw - logsumexp(lw, axis=0)[None, :])


def gmm_stats(X, w, mu, var):
    X = np.atleast_2d(np.asarray(X, dtype=float))
    lw = gmm_log_weighted(X, w, mu, var)
    ll = logsumexp(lw, axis=0)
    post = np.exp(lw - ll[None, :])
    C, F = mu.shape
    n = np.zeros(C)
    f = np.zeros((C, F))
    s = np.zeros((C, F))
    for t in range(X.shape[0]):
        for c in range(C):
            n[c] += post[c, t]
            f[c] += post[c, t] * X[t]
            s[c] += post[c, t] * X[t] * X[t]
    return {"t": X.shape[0], "n": n, "sum_px": f, "sum_pxx": s, "log_likelihood": float(ll.sum()),
            "post": post}


def weighted_stats(X, R):
    """Statistics of weighted data: R (C, n) non-negative responsibilities."""
    X = np.atleast_2d(np.asarray(X, dtype=float))
    n = R.sum(axis=1)
    f = R @ X
    s = R @ (X * X)
    return n, f, s


def ml_mstep(n, f, s, t, w, mu, var, upd_m, upd_v, upd_w, count_floor, var_floor):
    """Bishop 9.24-9.26 with the conditional variance maximiser when means are frozen."""
    nn = np.maximum(n, count_floor)
    w2, mu2, var2 = np.array(w, float), np.array(mu, float), np.array(var, float)
    if upd_w:
        w2 = nn / t
    if upd_m:
        mu2 = f / nn[:, None]
    if upd_v:
        # E_c[(x - mu)^2] around the means now in force
        var2 = (s - 2 * mu2 * f + nn[:, None] * mu2 * mu2) / nn[:, None]
        var2 = np.maximum(var2, var_floor)
    return w2, mu2, var2


def map_mstep(n, f, s, t, prior, cur, upd_m, upd_v, upd_w, relevance, alpha_fixed,
              count_floor, var_floor):
    """Reynolds et al. 2000, eqs. 11-13.  prior/cur = (w, mu, var)."""
    pw, pmu, pvar = prior
    w2, mu2, var2 = (np.array(a, float) for a in cur)
    if relevance is not None:
        a = n / (n + relevance)
    else:
        a = np.full(len(n), float(alpha_fixed)) if np.ndim(alpha_fixed) == 0 else np.asarray(alpha_fixed, float)
    no_ev = n < count_floor
    if upd_w:
        w2 = a * (n / t) + (1 - a) * pw
        w2 = w2 / w2.sum()
    if upd_m:
        ex = f / np.where(no_ev, 1.0, n)[:, None]
        mu2 = a[:, None] * ex + (1 - a[:, None]) * pmu
        mu2 = np.where(no_ev[:, None], pmu, mu2)
    if upd_v:
        exx = s / np.where(no_ev, 1.0, n)[:, None]
        v = a[:, None] * exx + (1 - a[:, None]) * (pvar + pmu * pmu) - mu2 * mu2
        v_noev = (pvar + pmu * pmu) - mu2 * mu2
        var2 = np.maximum(np.where(no_ev[:, None], v_noev, v), var_floor)
    return w2, mu2, var2


def map_variance_kf1(n, f, s, prior, mu_new, relevance, alpha_fixed, count_floor, var_floor):
    """The value the known finding KF-1 produces: prior mean in place of prior mean^2."""
    pw, pmu, pvar = prior
    if relevance is not None:
        a = n / (n + relevance)
    else:
        a = np.full(len(n), float(alpha_fixed)) if np.ndim(alpha_fixed) == 0 else np.asarray(alpha_fixed, float)
    no_ev = n < count_floor
    with np.errstate(all="ignore"):
        exx = s / n[:, None]
        v = a[:, None] * exx + (1 - a[:, None]) * (pvar + pmu) - mu_new * mu_new
    v_noev = (pvar + pmu) - mu_new * mu_new
    return np.maximum(np.where(no_ev[:, None], v_noev, v), var_floor)


def map_penalised_ll(X, w, mu, var, pmu, relevance):
    """sum_t log p(x_t) - r/2 sum (mu-mu0)^2/var  (means-only Reynolds adaptation)."""
    return float(gmm_logpdf(X, w, mu, var).sum() - 0.5 * relevance * (((mu - pmu) ** 2) / var).sum())


# ----------------------------------------------------------------------------
# k-means


def sq_dists(X, cent):
    X = np.atleast_2d(np.asarray(X, dtype=float))
    k = cent.shape[0]
    D = np.empty((k, X.shape[0]))
    for i in range(k):
        for t in range(X.shape[0]):
            d = X[t] - cent[i]
            D[i, t] = float(np.dot(d, d))
    return D


def kmeans_step(X, cent):
    """-> new centroids (empty cluster keeps NaN marker), counts, distortion of cent, margin."""
    X = np.atleast_2d(np.asarray(X, dtype=float))
    D = sq_dists(X, cent)
    lab = np.argmin(D, axis=0)
    k = cent.shape[0]
    new = np.full_like(cent, np.nan, dtype=float)
    counts = np.zeros(k, dtype=int)
    for i in range(k):
        sel = X[lab == i]
        counts[i] = len(sel)
        if len(sel):
            new[i] = sel.mean(axis=0)
    dmin = D.min(axis=0)
    distortion = float(dmin.mean())
    if k > 1:
        srt = np.sort(D, axis=0)
        scale = np.maximum(srt[1], 1e-300)
        margin = float(((srt[1] - srt[0]) / scale).min())
    else:
        margin = 1.0
    return new, counts, distortion, margin, lab


def distortion(X, cent):
    return float(sq_dists(X, cent).min(axis=0).mean())


# ----------------------------------------------------------------------------
# linear scoring


def linear_score(models, ubm_mu, ubm_var, stats, offsets, normalise):
    """models (M,C,F); stats list of dict(t,n,sum_px); offsets None | (C,F) | (T,C,F)."""
    models = np.asarray(models, dtype=float)
    M, C, F = models.shape
    T = len(stats)
    out = np.zeros((M, T))
    for m in range(M):
        for j, st in enumerate(stats):
            if offsets is None:
                off = np.zeros((C, F))
            else:
                off = np.asarray(offsets, dtype=float)
                off = off[j] if off.ndim == 3 else off
            acc = 0.0
            for c in range(C):
                for d in range(F):
                    a = (models[m, c, d] - ubm_mu[c, d]) / ubm_var[c, d]
                    b = st["sum_px"][c, d] - st["n"][c] * (ubm_mu[c, d] + off[c, d])
                    acc += a * b
            if normalise:
                acc = 0.0 if abs(st["t"]) <= np.finfo(float).eps else acc / st["t"]
            out[m, j] = acc
    return out


# ----------------------------------------------------------------------------
# factor analysis (ISV / JFA)


def _rep(n, F):
    return np.repeat(np.asarray(n, dtype=float), F)


class FA:
    """s_h = m + V y + U x_h + D z with N(0,I) priors; sigma = UBM variances (supervector).

    sessions: list of (n (C,), f (C,F)).  V may be None (ISV).
    """

    def __init__(self, m, sigma, U, D, V=None):
        self.m = np.asarray(m, float).ravel()
        self.sig = np.asarray(sigma, float).ravel()
        self.U = np.asarray(U, float)
        self.D = np.asarray(D, float).ravel()
        self.V = None if V is None else np.asarray(V, float)
        self.CF = self.m.size
        self.rU = self.U.shape[1]
        self.rV = 0 if self.V is None else self.V.shape[1]

    def _nf(self, sess, F):
        return [(_rep(n, F), np.asarray(f, float).ravel()) for n, f in sess]

    def feat(self, sess):
        return np.asarray(sess[0][1]).shape[1]

    # conditional modes -----------------------------------------------------
    def mode_y(self, sess, xs, z):
        F = self.feat(sess)
        nf = self._nf(sess, F)
        Ntot = sum(n for n, _ in nf)
        A = np.eye(self.rV) + self.V.T @ ((Ntot / self.sig)[:, None] * self.V)
        rhs = np.zeros(self.CF)
        for h, (n, f) in enumerate(nf):
            rhs += f - n * (self.m + self.U @ xs[h] + self.D * z)
        return np.linalg.solve(A, self.V.T @ (rhs / self.sig))

    def mode_x(self, sess, y, z):
        F = self.feat(sess)
        out = []
        vy = self.V @ y if self.V is not None else 0.0
        for n, f in self._nf(sess, F):
            A = np.eye(self.rU) + self.U.T @ ((n / self.sig)[:, None] * self.U)
            rhs = f - n * (self.m + vy + self.D * z)
            out.append(np.linalg.solve(A, self.U.T @ (rhs / self.sig)))
        return out

    def mode_z(self, sess, xs, y):
        F = self.feat(sess)
        nf = self._nf(sess, F)
        Ntot = sum(n for n, _ in nf)
        vy = self.V @ y if self.V is not None else 0.0
        rhs = np.zeros(self.CF)
        for h, (n, f) in enumerate(nf):
            rhs += f - n * (self.m + vy + self.U @ xs[h])
        return (self.D / self.sig) * rhs / (1.0 + self.D * self.D * Ntot / self.sig)

    # joint posterior ---------------------------------------------------------
    def joint(self, sess, y, xs, z):
        """log posterior up to a constant independent of (y, x, z)."""
        F = self.feat(sess)
        J = 0.0
        vy = self.V @ y if self.V is not None else 0.0
        for h, (n, f) in enumerate(self._nf(sess, F)):
            s = self.m + vy + self.U @ xs[h] + self.D * z
            J += float(np.dot(s / self.sig, f) - 0.5 * np.dot(s * n / self.sig, s))
            J -= 0.5 * float(np.dot(xs[h], xs[h]))
        if self.V is not None:
            J -= 0.5 * float(np.dot(y, y))
        J -= 0.5 * float(np.dot(z, z))
        return J

    def joint_mode(self, sess):
        """Exact mode by one dense solve of the (rV + H rU + CF) normal equations."""
        F = self.feat(sess)
        nf = self._nf(sess, F)
        H = len(nf)
        dim = self.rV + H * self.rU + self.CF
        A = np.eye(dim)
        b = np.zeros(dim)
        for h, (n, f) in enumerate(nf):
            W = np.zeros((self.CF, dim))
            if self.V is not None:
                W[:, : self.rV] = self.V
            o = self.rV + h * self.rU
            W[:, o: o + self.rU] = self.U
            W[:, self.rV + H * self.rU:] = np.diag(self.D)
            A += W.T @ ((n / self.sig)[:, None] * W)
            b += W.T @ ((f - n * self.m) / self.sig)
        th = np.linalg.solve(A, b)
        y = th[: self.rV] if self.V is not None else None
        xs = [th[self.rV + h * self.rU: self.rV + (h + 1) * self.rU] for h in range(H)]
        z = th[self.rV + H * self.rU:]
        return y, xs, z

    def enroll(self, sess, iters):
        """Block coordinate ascent in the order of the model statement."""
        H = len(sess)
        y = np.zeros(self.rV) if self.V is not None else None
        xs = [np.zeros(self.rU) for _ in range(H)]
        z = np.zeros(self.CF)
        traj = []
        for _ in range(iters):
            if self.V is not None:
                y = self.mode_y(sess, xs, z)
            xs = self.mode_x(sess, y if self.V is not None else None, z)
            z = self.mode_z(sess, xs, y if self.V is not None else None)
            traj.append((None if y is None else y.copy(), [x.copy() for x in xs], z.copy()))
        return traj


def _marg(A_extra, b):
    """1/2 b' L^-1 b - 1/2 log|L| with L = I + A_extra."""
    L = np.eye(len(b)) + A_extra
    sign, logdet = np.linalg.slogdet(L)
    return 0.5 * float(b @ np.linalg.solve(L, b)) - 0.5 * logdet


def jfa_marginal_v(m, sig, V, classes):
    """classes: list of sessions lists; V phase: mean_i = m + V y_i, pooled per class."""
    m = np.ravel(m)
    sig = np.ravel(sig)
    tot = 0.0
    for sess in classes:
        F = np.asarray(sess[0][1]).shape[1]
        N = sum(_rep(n, F) for n, _ in sess)
        Fs = sum(np.ravel(f) for _, f in sess)
        A = V.T @ ((N / sig)[:, None] * V)
        b = V.T @ ((Fs - N * m) / sig)
        tot += _marg(A, b)
    return tot


def jfa_marginal_u(m, sig, U, V, ys, classes):
    m = np.ravel(m)
    sig = np.ravel(sig)
    tot = 0.0
    for i, sess in enumerate(classes):
        F = np.asarray(sess[0][1]).shape[1]
        vy = V @ ys[i]
        for n, f in sess:
            N = _rep(n, F)
            A = U.T @ ((N / sig)[:, None] * U)
            b = U.T @ ((np.ravel(f) - N * (m + vy)) / sig)
            tot += _marg(A, b)
    return tot


def jfa_marginal_d(m, sig, U, V, D, ys, xs, classes):
    """xs[i]: (rU, H_i) point estimates; D diagonal -> closed form per dimension."""
    m = np.ravel(m)
    sig = np.ravel(sig)
    tot = 0.0
    for i, sess in enumerate(classes):
        F = np.asarray(sess[0][1]).shape[1]
        vy = V @ ys[i]
        N = sum(_rep(n, F) for n, _ in sess)
        r = np.zeros_like(m)
        for h, (n, f) in enumerate(sess):
            Nh = _rep(n, F)
            r += np.ravel(f) - Nh * (m + vy + U @ xs[i][:, h])
        L = 1.0 + D * D * N / sig
        b = D * r / sig
        tot += 0.5 * float((b * b / L).sum()) - 0.5 * float(np.log(L).sum())
    return tot


# ----------------------------------------------------------------------------
# i-vector


def ivec_posterior(n, f, T, sigma, ubm_mu):
    """T (C,F,R); sigma (C,F) -> (mean, precision L, linear term b)."""
    C, F, R = T.shape
    L = np.eye(R)
    b = np.zeros(R)
    for c in range(C):
        Tc = T[c]
        L += n[c] * (Tc.T @ (Tc / sigma[c][:, None]))
        b += Tc.T @ ((f[c] - n[c] * ubm_mu[c]) / sigma[c])
    return np.linalg.solve(L, b), L, b


def ivec_marginal_ll(stats, T, sigma, ubm_mu):
    """sum_u log p(stats_u | T, sigma), w integrated out."""
    tot = 0.0
    for st in stats:
        n, f, s = st["n"], st["sum_px"], st["sum_pxx"]
        w, L, b = ivec_posterior(n, f, T, sigma, ubm_mu)
        sc = s - 2 * f * ubm_mu + n[:, None] * ubm_mu * ubm_mu
        tot += float(-0.5 * (n[:, None] * np.log(2 * np.pi * sigma)).sum() - 0.5 * (sc / sigma).sum())
        sign, logdet = np.linalg.slogdet(L)
        tot += 0.5 * float(b @ w) - 0.5 * logdet
    return tot


# ----------------------------------------------------------------------------
# EM trajectories (reference E-step + reference M-step, iterated)


def ml_trajectory(X, init, upd, K, count_floor, var_floor):
    """models[0..K], L[1..K] (L[k] = mean log-lik of models[k-1]), active[k] = a floor touched step k."""
    w, mu, var = (np.array(a, float) for a in init)
    models = [(w, mu, var)]
    L = [None]
    active = [False]
    t = np.atleast_2d(X).shape[0]
    for _ in range(K):
        s = gmm_stats(X, w, mu, var)
        L.append(s["log_likelihood"] / t)
        w2, mu2, var2 = ml_mstep(s["n"], s["sum_px"], s["sum_pxx"], t, w, mu, var,
                                 upd[0], upd[1], upd[2], count_floor, var_floor)
        act = bool((s["n"] < 100 * count_floor).any())
        if upd[1]:
            raw = (s["sum_pxx"] - 2 * mu2 * s["sum_px"] + np.maximum(s["n"], count_floor)[:, None] * mu2 * mu2) \
                / np.maximum(s["n"], count_floor)[:, None]
            act = act or bool((raw <= np.asarray(var_floor) * (1 + 1e-6)).any())
        active.append(act)
        w, mu, var = w2, mu2, var2
        models.append((w, mu, var))
    return models, L, active


def map_trajectory(X, prior, upd, K, relevance, alpha_fixed, count_floor, var_floor):
    w, mu, var = (np.array(a, float) for a in prior)
    models = [(w, mu, var)]
    L = [None]
    t = np.atleast_2d(X).shape[0]
    for _ in range(K):
        s = gmm_stats(X, w, mu, var)
        L.append(s["log_likelihood"] / t)
        w, mu, var = map_mstep(s["n"], s["sum_px"], s["sum_pxx"], t, prior, (w, mu, var),
                               upd[0], upd[1], upd[2], relevance, alpha_fixed, count_floor, var_floor)
        models.append((w, mu, var))
    return models, L


def stop_iteration(L, thr, cap):
    """First k>=2 with |L[k-1]-L[k]|/|L[k-1]| <= thr, else cap; also the closest call to the threshold."""
    K = len(L) - 1
    closest = np.inf
    for k in range(2, K + 1):
        if cap is not None and k > cap:
            break
        conv = abs((L[k - 1] - L[k]) / L[k - 1]) if L[k - 1] != 0 else np.inf
        if thr is not None:
            if thr > 0:
                closest = min(closest, abs(conv - thr) / thr)
            else:
                closest = min(closest, np.inf if conv == 0 else conv)
            if conv <= thr:
                return k, closest
    return (cap if cap is not None else None), closest


def ivec_em_step(stats, T, sigma, ubm_mu, update_sigma, floor):
    """One exact EM step for (T, sigma): T_c = C_c A_c^-1, sigma_c = (S~_c - diag(T_c C_c'))/N_c."""
    C, F, R = T.shape
    A = np.zeros((C, R, R))
    Cc = np.zeros((C, F, R))
    S = np.zeros((C, F))
    N = np.zeros(C)
    for st in stats:
        n, f, s = st["n"], st["sum_px"], st["sum_pxx"]
        w, L, b = ivec_posterior(n, f, T, sigma, ubm_mu)
        Eww = np.linalg.inv(L) + np.outer(w, w)
        for c in range(C):
            A[c] += n[c] * Eww
            Cc[c] += np.outer(f[c] - n[c] * ubm_mu[c], w)
            S[c] += s[c] - 2 * f[c] * ubm_mu[c] + n[c] * ubm_mu[c] ** 2
            N[c] += n[c]
    T2 = np.zeros_like(T)
    sig2 = np.array(sigma, float)
    for c in range(C):
        if A[c].any():
            T2[c] = np.linalg.solve(A[c].T, Cc[c].T).T
        if update_sigma and N[c] > 0:
            sig2[c] = (S[c] - np.einsum("fr,fr->f", T2[c], Cc[c])) / N[c]
    if update_sigma:
        sig2 = np.maximum(sig2, floor)
    return T2, sig2


def kmeans_tie_candidates(X, cent, rel=1e-9, max_tied=6):
    """All centroid sets obtainable by one Lloyd step when samples exactly equidistant from several centroids
    may go to any ONE of them.  Returns (candidates, n_tied, ambiguous) where ambiguous is True when some sample
    is nearly but not exactly tied (margin between rel and 1e-6) or there are too many tied samples."""
    import itertools

    X = np.atleast_2d(np.asarray(X, dtype=float))
    D = sq_dists(X, cent)
    k = cent.shape[0]
    best = D.min(axis=0)
    options, ambiguous = [], False
    for t in range(X.shape[0]):
        scale = max(np.sort(D[:, t])[1] if k > 1 else 1.0, 1e-300)
        gap = (D[:, t] - best[t]) / scale
        tied = [i for i in range(k) if gap[i] <= rel]
        if any(rel < g < 1e-6 for g in gap):
            ambiguous = True
        options.append(tied)
    tied_idx = [t for t, o in enumerate(options) if len(o) > 1]
    if len(tied_idx) > max_tied:
        return [], len(tied_idx), True
    cands = []
    for choice in itertools.product(*[options[t] for t in tied_idx]):
        lab = np.array([o[0] for o in options])
        for t, c in zip(tied_idx, choice):
            lab[t] = c
        new = np.full_like(cent, np.nan, dtype=float)
        for i in range(k):
            sel = X[lab == i]
            if len(sel):
                new[i] = sel.mean(axis=0)
        cands.append((new, lab))
    return cands, len(tied_idx), ambiguous
