"""Driver: tiers, seeds, sharding, exit codes, evidence, VIOLATION / KNOWN-FINDING lines.

Each property module ``vf.props.cNN`` registers *obligations*.  An obligation is
a pair (gen, check): ``gen(draw)`` builds a JSON-serialisable case from
Hypothesis draws only, ``check(ctx, case)`` evaluates the oracle on the code
under test and raises ``Violation`` on disagreement.  The same ``check`` is used
for generated search and for replay files, so a replay never depends on an RNG
or on Hypothesis.
"""
import argparse
import importlib
import json
import logging
import os
import sys
import time
import traceback
import warnings
import zlib

VERIF_DIR = os.path.dirname(os.path.dirname(os.path.abspath(__file__)))
REPO = os.environ.get("VERIF_REPO", "/repo")
SRC = os.path.join(REPO, "src")
if SRC not in sys.path:
    sys.path.insert(0, SRC)
if VERIF_DIR not in sys.path:
    sys.path.insert(0, VERIF_DIR)

warnings.simplefilter("ignore")
logging.disable(logging.WARNING)

import numpy as np  # noqa: E402

np.seterr(all="ignore")

import dask  # noqa: E402

dask.config.set(scheduler="synchronous")

import hypothesis  # noqa: E402
from hypothesis import HealthCheck, Phase, given, settings  # noqa: E402
from hypothesis import strategies as st  # noqa: E402
from hypothesis.errors import HypothesisException  # noqa: E402

from vf import cases  # noqa: E402

TIER = os.environ.get("VERIF_TIER", "quick")
LEVEL = "exploration"
SHRINK_SECONDS = {"quick": 25, "thorough": 120}


def thorough():
    return TIER == "thorough"


class Violation(Exception):
    def __init__(self, msg, klass="mismatch", detail=None):
        super().__init__(msg)
        self.msg = msg
        self.klass = klass
        self.detail = detail or {}
        self.case = None


class HarnessError(Exception):
    pass


class Obligation:
    def __init__(self, name, gen, check, quick, thorough, doc="", budget=None, shard_size=None):
        self.name = name
        self.gen = gen
        self.check = check
        self.quick = quick
        self.thorough = thorough
        self.doc = doc or (check.__doc__ or "").strip()
        self.budget = budget  # (quick seconds, thorough seconds) per shard
        self.shard_size = shard_size  # examples per shard for slow obligations


class Registry:
    def __init__(self, prop_id, rule, assumptions=(), level="exploration"):
        self.prop_id = prop_id
        self.rule = rule
        self.assumptions = list(assumptions)
        self.level = level
        self.obligations = []

    def obligation(self, name, gen, quick, thorough, budget=None, shard_size=None):
        def deco(check):
            self.obligations.append(
                Obligation(name, gen, check, quick, thorough, budget=budget, shard_size=shard_size)
            )
            return check

        return deco


# ----------------------------------------------------------------------------
# known findings


def load_known_findings():
    path = os.path.join(VERIF_DIR, "known_findings.json")
    try:
        with open(path) as f:
            doc = json.load(f)
    except FileNotFoundError:
        return {}
    out = {}
    for e in doc.get("findings", []):
        if e.get("status", "open") == "open":
            out.setdefault(e["id"], {})[e["property"]] = e
    return out


# ----------------------------------------------------------------------------
# per-obligation context


class Ctx:
    def __init__(self, prop_id, ob_name, mode="search"):
        self.prop_id = prop_id
        self.ob = ob_name
        self.mode = mode
        self.evaluations = 0
        self.nontrivial_hashes = set()
        self.all_hashes = set()
        self.classes = {}
        self.discards = {}
        self.stats = {}
        self.samples = []
        self.known = load_known_findings()
        self.known_hits = {}
        self.case = None
        self._noted = False
        self.t0 = time.time()

    # -- bookkeeping --------------------------------------------------------
    def begin(self, case):
        self.case = case
        self._noted = False

    def note(self, nontrivial, *labels):
        """Register the current case (call once per case, after the guards)."""
        if self._noted:
            return
        self._noted = True
        self.evaluations += 1
        h = cases.case_hash(self.case)
        self.all_hashes.add(h)
        if nontrivial:
            self.nontrivial_hashes.add(h)
            if len(self.samples) < 2:
                self.samples.append(
                    {"obligation": self.ob, "case": cases.summarise(self.case)}
                )
        for lab in labels:
            if lab:
                self.classes[lab] = self.classes.get(lab, 0) + 1

    def event(self, label, n=1):
        self.classes[label] = self.classes.get(label, 0) + n

    def stat_max(self, name, value):
        try:
            value = float(value)
        except Exception:
            return
        if value != value:
            return
        if name not in self.stats or value > self.stats[name]:
            self.stats[name] = value

    def discard(self, reason):
        self.discards[reason] = self.discards.get(reason, 0) + 1
        if self.mode == "search":
            hypothesis.reject()
        raise _ReplayDiscard(reason)

    # -- known findings -----------------------------------------------------
    def known_finding(self, kf_id, what=None):
        """True (and counted) when kf_id is listed as an open finding."""
        e = self.known.get(kf_id, {}).get(self.prop_id)
        if e is None:
            return False
        self.known_hits[kf_id] = self.known_hits.get(kf_id, 0) + 1
        return True

    # -- oracles ------------------------------------------------------------
    def fail(self, msg, klass="mismatch", **detail):
        raise Violation(msg, klass, detail)

    def check(self, cond, msg, klass="predicate", **detail):
        if not cond:
            self.fail(msg, klass, **detail)

    def close(self, got, want, what, rtol=1e-9, atol=0.0, klass=None):
        """|got-want| <= atol + rtol*max(|got|,|want|) elementwise, NaN never equal."""
        g = np.asarray(got, dtype=float)
        w = np.asarray(want, dtype=float)
        if g.shape != w.shape:
            self.fail(
                "%s: shape %s != expected %s" % (what, g.shape, w.shape),
                klass or ("shape:" + what),
            )
        if g.size == 0:
            return
        bad_nan = ~np.isfinite(g) & np.isfinite(w)
        if bad_nan.any():
            i = int(np.argmax(bad_nan.ravel()))
            self.fail(
                "%s: non-finite value %r where %r expected (flat index %d)"
                % (what, g.ravel()[i], w.ravel()[i], i),
                klass or ("nonfinite:" + what),
            )
        same_inf = ~np.isfinite(w) & (g == w)
        scale = np.maximum(np.abs(g), np.abs(w))
        err = np.abs(g - w)
        err = np.where(same_inf, 0.0, err)
        scale = np.where(same_inf, 1.0, scale)
        bound = atol + rtol * scale
        with np.errstate(all="ignore"):
            rel = np.where(scale > 0, err / np.where(scale > 0, scale, 1), 0.0)
        ok = err <= bound
        ok |= same_inf
        self.stat_max("max_rel_diff:" + what, np.nanmax(np.where(ok, rel, 0.0)))
        if not ok.all():
            i = int(np.argmax((~ok).ravel()))
            self.fail(
                "%s: got %r, expected %r (|diff| %.3g > bound %.3g, flat index %d)"
                % (
                    what,
                    float(g.ravel()[i]),
                    float(w.ravel()[i]),
                    float(err.ravel()[i]),
                    float(np.broadcast_to(bound, err.shape).ravel()[i]),
                    i,
                ),
                klass or ("value:" + what),
                got=float(g.ravel()[i]),
                want=float(w.ravel()[i]),
            )

    def finite(self, arr, what):
        a = np.asarray(arr, dtype=float)
        if not np.isfinite(a).all():
            self.fail("%s contains non-finite values: %r" % (what, a.ravel()[:8].tolist()),
                      "nonfinite:" + what)


class _ReplayDiscard(Exception):
    pass


# ----------------------------------------------------------------------------
# classification of exceptions escaping the code under test


def _through_code_under_test(tb):
    hit = None
    for fr in traceback.extract_tb(tb):
        fn = fr.filename.replace("\\", "/")
        if "/bob/learn/em/" in fn:
            hit = "%s:%s" % (os.path.basename(fn), fr.name)
    if hit is None:
        # a lazy (Dask) result handed back by the code under test fails when the check evaluates it: the graph was
        # built by the code under test (the harness only supplies plain input arrays / bags), no frame of it is on
        # the stack any more
        frames = [fr.filename.replace("\\", "/") for fr in traceback.extract_tb(tb)]
        if any("/site-packages/dask/" in fn for fn in frames) and "/vf/" not in frames[-1]:
            last = traceback.extract_tb(tb)[-1]
            hit = "lazy result, %s:%s" % (os.path.basename(last.filename), last.name)
    return hit


def _last_vf_frame(tb):
    for fr in reversed(traceback.extract_tb(tb)):
        if "/vf/" in fr.filename:
            return "%s:%s:%d" % (os.path.basename(fr.filename), fr.name, fr.lineno)
    return "?"


def run_check(ob, ctx, case):
    """Run ob.check; translate exceptions raised inside bob.learn.em into Violations."""
    from vf import guard

    ctx.begin(case)
    guard.install()
    guard.reset()
    try:
        with guard.watchdog():
            ob.check(ctx, case)
    except (Violation, HypothesisException, _ReplayDiscard):
        raise
    except Exception as e:  # noqa: BLE001
        where = _through_code_under_test(e.__traceback__)
        if where is None:
            raise
        v = Violation(
            "code under test raised %s: %s (at %s, called from %s)"
            % (type(e).__name__, str(e)[:200], where, _last_vf_frame(e.__traceback__)),
            "exception:%s@%s" % (type(e).__name__, where),
        )
        raise v from e
    ctx.note(False)  # obligations that forgot to note still count as evaluated


# ----------------------------------------------------------------------------
# one obligation, one shard


def ob_seed(base_seed, ob_name, shard):
    return (base_seed * 1000003 + zlib.crc32(ob_name.encode()) + shard * 7919) % (2**32)


def run_obligation_shard(prop_id, ob_name, tier, base_seed, shard, n_examples, budget_s):
    global TIER
    TIER = tier
    os.environ["VERIF_TIER"] = tier
    t0 = time.time()
    mod = importlib.import_module("vf.props." + prop_id.lower())
    ob = next(o for o in mod.REG.obligations if o.name == ob_name)
    ctx = Ctx(prop_id, ob_name)
    state = {"last": None, "skipped": 0, "first_fail_t": None}

    try:
        import hypothesis.internal.conjecture.engine as _eng

        _eng.MAX_SHRINKING_SECONDS = SHRINK_SECONDS.get(tier, 25)
    except Exception:  # pragma: no cover
        pass

    def body(data):
        # the case is always drawn, so that every run of the test consumes the same kind of data (a run that draws
        # nothing would make Hypothesis report FlakyStrategyDefinition); only its evaluation is skipped once the
        # wall-clock budget of this shard is used up (inconclusive for those cases, never a violation)
        case = ob.gen(data.draw)
        if state["last"] is None and time.time() - t0 > budget_s:
            state["skipped"] += 1
            return
        try:
            run_check(ob, ctx, case)
        except Violation as v:
            v.case = case
            state["last"] = v
            raise
        except BaseException as e:  # noqa: BLE001
            if type(e).__name__ == "CaseTimeout":
                # inconclusive, not a violation: keep the case so that it can be looked at
                try:
                    d = os.path.join(VERIF_DIR, "replays", prop_id, "found")
                    os.makedirs(d, exist_ok=True)
                    with open(os.path.join(d, "inconclusive-%s-%s.json" % (ob_name, cases.case_hash(case)[:12])), "w") as f:
                        json.dump({"property": prop_id, "obligation": ob_name, "message": str(e), "class": "inconclusive:timeout",
                                   "detail": None, "case": cases.encode(case)}, f, indent=1, sort_keys=True)
                except Exception:  # noqa: BLE001
                    pass
            raise

    sett = settings(
        max_examples=n_examples,
        database=None,
        deadline=None,
        derandomize=False,
        report_multiple_bugs=False,
        suppress_health_check=list(HealthCheck),
        phases=[Phase.generate, Phase.shrink],
        print_blob=False,
        verbosity=hypothesis.Verbosity.quiet,
    )
    test = hypothesis.seed(ob_seed(base_seed, ob_name, shard))(sett(given(st.data())(body)))

    res = {
        "obligation": ob_name,
        "shard": shard,
        "status": "ok",
        "violation": None,
    }
    try:
        test()
    except Violation as v:
        v = state["last"] or v
        res["status"] = "violation"
        res["violation"] = {
            "msg": v.msg,
            "klass": v.klass,
            "detail": cases.encode(v.detail),
            "case": cases.encode(v.case),
        }
    except hypothesis.errors.Unsatisfiable:
        res["status"] = "ok"
        ctx.event("hypothesis:unsatisfiable")
    except hypothesis.errors.Flaky as e:
        v = state["last"]
        if v is not None:
            res["status"] = "violation"
            res["violation"] = {
                "msg": v.msg + " [reported flaky by Hypothesis: %s]" % str(e)[:120],
                "klass": v.klass,
                "detail": cases.encode(v.detail),
                "case": cases.encode(v.case),
            }
        else:
            res["status"] = "error"
            res["error"] = traceback.format_exc()
    except BaseException:  # noqa: BLE001
        v = state["last"]
        res["status"] = "error"
        res["error"] = traceback.format_exc()
    res.update(
        evaluations=ctx.evaluations,
        nontrivial=sorted(ctx.nontrivial_hashes),
        distinct=len(ctx.all_hashes),
        classes=ctx.classes,
        discards=ctx.discards,
        stats=ctx.stats,
        samples=ctx.samples,
        known_hits=ctx.known_hits,
        skipped_budget=state["skipped"],
        wall_s=time.time() - t0,
    )
    return res


def _run_shard_star(args):
    try:
        return run_obligation_shard(*args)
    except BaseException:  # noqa: BLE001
        return {
            "obligation": args[1],
            "shard": args[4],
            "status": "error",
            "error": traceback.format_exc(),
            "evaluations": 0,
            "nontrivial": [],
            "distinct": 0,
            "classes": {},
            "discards": {},
            "stats": {},
            "samples": [],
            "known_hits": {},
            "skipped_budget": 0,
            "wall_s": 0.0,
        }


# ----------------------------------------------------------------------------
# replay


def replay_file(mod, prop_id, path):
    with open(path) as f:
        doc = json.load(f)
    ob = next((o for o in mod.REG.obligations if o.name == doc["obligation"]), None)
    if ob is None:
        raise HarnessError("replay %s: unknown obligation %r" % (path, doc["obligation"]))
    case = cases.decode(doc["case"])
    ctx = Ctx(prop_id, ob.name, mode="replay")
    try:
        run_check(ob, ctx, case)
    except _ReplayDiscard as d:
        return None, ctx, "discarded: %s" % d
    except Violation as v:
        return v, ctx, None
    return None, ctx, None


def write_replay(prop_id, ob_name, viol):
    d = os.path.join(VERIF_DIR, "replays", prop_id, "found")
    os.makedirs(d, exist_ok=True)
    body = {
        "property": prop_id,
        "obligation": ob_name,
        "message": viol["msg"],
        "class": viol["klass"],
        "detail": viol["detail"],
        "case": viol["case"],
    }
    h = cases.hashlib.sha1(json.dumps(viol["case"], sort_keys=True).encode()).hexdigest()[:12]
    safe = "".join(ch if ch.isalnum() or ch in "-_" else "_" for ch in ob_name)
    path = os.path.join(d, "%s-%s.json" % (safe, h))
    with open(path, "w") as f:
        json.dump(body, f, indent=1, sort_keys=True)
    return path


# ----------------------------------------------------------------------------
# main


def main(argv=None):
    global TIER
    ap = argparse.ArgumentParser()
    ap.add_argument("prop")
    ap.add_argument("--tier", default=os.environ.get("VERIF_TIER", "quick"))
    ap.add_argument("--replay", default=None)
    ap.add_argument("--only", default=None, help="comma-separated obligation names")
    ap.add_argument("--jobs", type=int, default=int(os.environ.get("VERIF_JOBS", "16")))
    ap.add_argument("--scale", type=float, default=float(os.environ.get("VERIF_SCALE", "1")))
    ap.add_argument("--no-evidence", action="store_true")
    args = ap.parse_args(argv)
    prop_id = args.prop.upper()
    tier = args.tier if args.tier in ("quick", "thorough") else "quick"
    TIER = tier
    os.environ["VERIF_TIER"] = tier
    try:
        seed = int(os.environ.get("VERIF_SEED", "1"))
    except ValueError:
        seed = 1
    t0 = time.time()

    try:
        mod = importlib.import_module("vf.props." + prop_id.lower())
    except Exception:  # noqa: BLE001
        traceback.print_exc()
        print("HARNESS-ERROR property=%s import failed" % prop_id)
        return 2
    reg = mod.REG

    # ---- single replay ------------------------------------------------------
    if args.replay:
        try:
            v, ctx, note = replay_file(mod, prop_id, args.replay)
        except Exception:  # noqa: BLE001
            traceback.print_exc()
            print("HARNESS-ERROR property=%s replay failed" % prop_id)
            return 2
        for kf in ctx.known_hits:
            print("KNOWN-FINDING: property=%s %s" % (prop_id, ctx.known[kf][prop_id]["text"]))
        if v is not None:
            print("  %s [%s]" % (v.msg, v.klass))
            print("VIOLATION property=%s replay=%s" % (prop_id, args.replay))
            return 1
        print("replay ok%s" % ((" (" + note + ")") if note else ""))
        return 0

    violations = []
    errors = []
    known_hits = {}

    # ---- committed regression replays --------------------------------------
    reg_dir = os.path.join(VERIF_DIR, "replays", prop_id, "regress")
    n_regress = 0
    stale_replays = []
    if os.path.isdir(reg_dir):
        for fn in sorted(os.listdir(reg_dir)):
            if not fn.endswith(".json"):
                continue
            path = os.path.join(reg_dir, fn)
            try:
                v, ctx, note = replay_file(mod, prop_id, path)
            except Exception:  # noqa: BLE001
                # a committed replay that no longer matches the check's case format is stale, not a verdict
                stale_replays.append(fn)
                sys.stderr.write("stale regression replay %s: %s\n" % (fn, traceback.format_exc().splitlines()[-1]))
                continue
            n_regress += 1
            for kf, n in ctx.known_hits.items():
                known_hits[kf] = known_hits.get(kf, 0) + n
            if v is not None:
                violations.append((ctx.ob, v.msg, v.klass, path))

    # ---- generated search ---------------------------------------------------
    obs = reg.obligations
    if args.only:
        wanted = set(args.only.split(","))
        obs = [o for o in obs if o.name in wanted]
    jobs = max(1, args.jobs)
    tasks = []
    for ob in obs:
        n_total = max(1, int((ob.thorough if tier == "thorough" else ob.quick) * args.scale))
        if ob.shard_size:
            shards = min(jobs, max(1, -(-n_total // ob.shard_size)))
        elif tier == "thorough":
            shards = min(jobs, max(1, n_total // 50))
        else:
            shards = min(6, max(1, n_total // 60))
        per = max(1, n_total // shards)
        if ob.budget:
            budget = ob.budget[1 if tier == "thorough" else 0]
        else:
            budget = 1800 if tier == "thorough" else 300
        if os.environ.get("VERIF_SHARD_BUDGET"):
            budget = float(os.environ["VERIF_SHARD_BUDGET"])  # development aid: exercise the budget path
        for sh in range(shards):
            tasks.append((prop_id, ob.name, tier, seed, sh, per, budget))

    results = []
    if tasks:
        if jobs == 1 or len(tasks) == 1:
            results = [_run_shard_star(t) for t in tasks]
        else:
            import multiprocessing as mp

            ctxmp = mp.get_context("fork")
            with ctxmp.Pool(min(jobs, len(tasks))) as pool:
                results = list(pool.imap_unordered(_run_shard_star, tasks, chunksize=1))
    results.sort(key=lambda r: (r["obligation"], r["shard"]))

    per_ob = {}
    nontrivial = set()
    evaluations = 0
    samples = []
    classes = {}
    discards = {}
    stats = {}
    skipped = 0
    for r in results:
        o = per_ob.setdefault(
            r["obligation"],
            {"evaluations": 0, "distinct_nontrivial": 0, "shards": 0, "wall_s": 0.0, "status": "ok",
             "_nt": set()},
        )
        o["evaluations"] += r["evaluations"]
        o["_nt"].update(r["nontrivial"])
        o["shards"] += 1
        o["wall_s"] = round(max(o["wall_s"], r["wall_s"]), 2)
        evaluations += r["evaluations"]
        nontrivial.update((r["obligation"], h) for h in r["nontrivial"])
        skipped += r.get("skipped_budget", 0)
        for k, v in r["classes"].items():
            key = "%s/%s" % (r["obligation"], k)
            classes[key] = classes.get(key, 0) + v
        for k, v in r["discards"].items():
            key = "%s/%s" % (r["obligation"], k)
            discards[key] = discards.get(key, 0) + v
        for k, v in r["stats"].items():
            key = "%s/%s" % (r["obligation"], k)
            stats[key] = max(stats.get(key, 0.0), v)
        for k, v in r["known_hits"].items():
            known_hits[k] = known_hits.get(k, 0) + v
        if len([s for s in samples if s["obligation"] == r["obligation"]]) < 1:
            samples.extend(r["samples"][:1])
        if r["status"] == "violation":
            o["status"] = "violation"
            path = write_replay(prop_id, r["obligation"], r["violation"])
            violations.append((r["obligation"], r["violation"]["msg"], r["violation"]["klass"], path))
        elif r["status"] == "error":
            o["status"] = "error"
            errors.append("%s shard %d:\n%s" % (r["obligation"], r["shard"], r.get("error", "")))
    for o in per_ob.values():
        o["distinct_nontrivial"] = len(o.pop("_nt"))

    # one line per root cause: (obligation, class)
    seen = set()
    uniq = []
    for obn, msg, klass, path in violations:
        key = (obn, klass)
        if key in seen:
            continue
        seen.add(key)
        uniq.append((obn, msg, klass, path))

    known = load_known_findings()
    for kf in sorted(known_hits):
        print("KNOWN-FINDING: property=%s %s (matched %d generated cases)"
              % (prop_id, known[kf][prop_id]["text"], known_hits[kf]))
    for obn, msg, klass, path in uniq:
        print("  [%s] %s" % (obn, msg))
        print("VIOLATION property=%s replay=%s" % (prop_id, path))
    for e in errors:
        sys.stderr.write("HARNESS-ERROR %s\n" % e)

    wall = time.time() - t0
    if not args.no_evidence:
        ev = {
            "property_id": prop_id,
            "tier": tier,
            "seed": seed,
            "level": reg.level,
            "coverage": {
                "evaluations": int(evaluations),
                "distinct_nontrivial": int(len(nontrivial)),
                "rule": reg.rule,
                "samples": samples[:12] if samples else [],
                "sub_checks": per_ob,
                "classes": classes,
                "discarded_by_guard": discards,
                "observed_maxima": {k: float("%.3g" % v) for k, v in stats.items()},
                "regression_replays": n_regress,
                "regression_replays_stale": stale_replays,
                "skipped_after_wall_budget": skipped,
                "known_findings_matched": known_hits,
                "exhaustive": False,
            },
            "assumptions": reg.assumptions,
            "wall_s": round(wall, 2),
            "violations": len(uniq),
        }
        if not ev["coverage"]["samples"]:
            ev["coverage"]["samples"] = [{"note": "no non-trivial sample recorded"}]
        os.makedirs(os.path.join(VERIF_DIR, "evidence"), exist_ok=True)
        with open(os.path.join(VERIF_DIR, "evidence", prop_id + ".json"), "w") as f:
            json.dump(ev, f, indent=1, sort_keys=True)

    print(
        "%s %s seed=%d: %d cases, %d distinct non-trivial, %d obligations, %d violation(s), %.1fs"
        % (prop_id, tier, seed, evaluations, len(nontrivial), len(per_ob), len(uniq), wall)
    )
    if uniq:
        return 1
    if errors:
        print("HARNESS-ERROR property=%s (%d errors, see stderr)" % (prop_id, len(errors)))
        return 2
    return 0


if __name__ == "__main__":
    sys.exit(main())
