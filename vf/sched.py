"""Harness-owned Dask executor: owns task ORDER and worker ISOLATION.

``dask.config.set(scheduler=Executor(...))`` routes every compute/persist the
library issues (arrays, bags, delayed) to ``Executor.__call__(graph, keys)``.
It materialises the graph, keeps the ready set and executes ONE task at a time,
choosing the next ready task by the case's order policy (fifo / lifo / seeded
random), so every topological order of every task graph the library builds is
reachable and nothing depends on thread timing.  With ``isolate=True`` each
task (callable + bound objects + inputs) and its result are round-tripped
through cloudpickle, which is what a distributed worker does: the task works on
its own copy of the machine, in-task mutation of ``self`` never reaches the
caller, only what is returned and assigned back survives.
"""
import contextlib

import cloudpickle
import dask
import numpy as np
from dask._task_spec import convert_legacy_graph


class Executor:
    def __init__(self, order="fifo", seed=0, isolate=False):
        self.order = order
        self.isolate = isolate
        self.rng = np.random.Generator(np.random.PCG64(int(seed)))
        self.calls = 0
        self.tasks_run = 0
        self.reordered = 0
        self.max_ready = 0
        self.trace = []

    def _pick(self, ready):
        n = len(ready)
        self.max_ready = max(self.max_ready, n)
        if n == 1 or self.order == "fifo":
            return 0
        if self.order == "lifo":
            self.reordered += 1
            return n - 1
        i = int(self.rng.integers(0, n))
        if i != 0:
            self.reordered += 1
        return i

    def __call__(self, dsk, keys, **kwargs):
        self.calls += 1
        if not isinstance(dsk, dict):
            dsk = dsk.__dask_graph__()
        graph = convert_legacy_graph(dict(dsk))
        deps = {k: set(d for d in node.dependencies if d in graph) for k, node in graph.items()}
        # only what the requested keys need
        needed, stack = set(), list(_flatten(keys))
        while stack:
            k = stack.pop()
            if k in needed or k not in graph:
                continue
            needed.add(k)
            stack.extend(deps[k])
        order_index = {k: i for i, k in enumerate(graph)}
        waiting = {k: set(deps[k]) for k in needed}
        dependents = {k: set() for k in needed}
        for k in needed:
            for d in deps[k]:
                dependents[d].add(k)
        ready = sorted([k for k in needed if not waiting[k]], key=order_index.get)
        values = {}
        while ready:
            k = ready.pop(self._pick(ready))
            node = graph[k]
            inputs = {d: values[d] for d in node.dependencies if d in values}
            if self.isolate:
                node, inputs = cloudpickle.loads(cloudpickle.dumps((node, inputs)))
                out = node(inputs)
                out = cloudpickle.loads(cloudpickle.dumps(out))
            else:
                out = node(inputs)
            values[k] = out
            self.tasks_run += 1
            if len(self.trace) < 200:
                self.trace.append(str(k)[:40])
            newly = []
            for dep in dependents[k]:
                waiting[dep].discard(k)
                if not waiting[dep]:
                    newly.append(dep)
            ready.extend(sorted(newly, key=order_index.get))
        return _nest(keys, values)


def _flatten(keys):
    if isinstance(keys, list):
        for k in keys:
            yield from _flatten(k)
    else:
        yield keys


def _nest(keys, values):
    if isinstance(keys, list):
        return [_nest(k, values) for k in keys]
    return values[keys]


@contextlib.contextmanager
def owned(order="fifo", seed=0, isolate=False):
    ex = Executor(order, seed, isolate)
    with dask.config.set(scheduler=ex):
        yield ex
