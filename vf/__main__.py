import sys

from vf.runner import main

sys.exit(main())
