"""Canonical (de)serialisation of generated cases.

A *case* is a plain dict of Python scalars, strings, lists, dicts and NumPy
arrays.  Replay files are JSON: arrays become ``{"__nd__": nested-list,
"dtype": ..}`` (Python's float repr round-trips float64 exactly; NaN/inf use the
JSON extensions Python's json module reads back).  The SHA-1 of the canonical
JSON identifies a case for the distinctness count.
"""
import hashlib
import json

import numpy as np


def encode(obj):
    if isinstance(obj, np.ndarray):
        return {
            "__nd__": obj.tolist(),
            "dtype": str(obj.dtype),
            "shape": list(obj.shape),
        }
    if isinstance(obj, (np.floating,)):
        return float(obj)
    if isinstance(obj, (np.integer,)):
        return int(obj)
    if isinstance(obj, (np.bool_,)):
        return bool(obj)
    if isinstance(obj, dict):
        return {str(k): encode(v) for k, v in obj.items()}
    if isinstance(obj, (list, tuple)):
        return [encode(v) for v in obj]
    if isinstance(obj, bytes):
        return {"__bytes__": obj.hex()}
    return obj


def decode(obj):
    if isinstance(obj, dict):
        if "__nd__" in obj:
            a = np.array(obj["__nd__"], dtype=obj.get("dtype", "float64"))
            if "shape" in obj:
                a = a.reshape(obj["shape"])
            return a
        if "__bytes__" in obj:
            return bytes.fromhex(obj["__bytes__"])
        return {k: decode(v) for k, v in obj.items()}
    if isinstance(obj, list):
        return [decode(v) for v in obj]
    return obj


def dumps(case, **kw):
    return json.dumps(encode(case), sort_keys=True, **kw)


def loads(text):
    return decode(json.loads(text))


def case_hash(case):
    return hashlib.sha1(dumps(case).encode()).hexdigest()


def summarise(obj, max_elems=24):
    """A compact, human-readable rendering of a case for the evidence file."""
    if isinstance(obj, np.ndarray):
        if obj.size <= max_elems:
            return np.round(obj.astype(float), 6).tolist() if obj.dtype.kind == "f" else obj.tolist()
        flat = obj.ravel()[:6]
        head = np.round(flat.astype(float), 6).tolist() if obj.dtype.kind == "f" else flat.tolist()
        return {"shape": list(obj.shape), "head": head}
    if isinstance(obj, dict):
        return {k: summarise(v, max_elems) for k, v in obj.items()}
    if isinstance(obj, (list, tuple)):
        if len(obj) > 12:
            return [summarise(v, max_elems) for v in obj[:12]] + ["...(%d)" % len(obj)]
        return [summarise(v, max_elems) for v in obj]
    return encode(obj)
